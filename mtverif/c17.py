"""C17 - only code the filter admits, outside __main__, is ever recorded."""
import importlib.metadata
import json
import os
import shutil
import sqlite3
import subprocess
import sys
import sysconfig
import tempfile

from hypothesis import given, strategies as st

from monkeytype.tracing import CallTraceLogger, trace_calls

from . import c02, core, synth, tracerun, vals

LEVEL = "exploration"
RULE = ("default filter: one fabricated, pairwise-unequal code object per .py file under the stdlib and site-packages roots "
        "(thorough: also every real code object obtained by compiling each file, and the functions of all imported modules "
        "incl. frozen ones), synthetic names, generated user files, symlinked directories in both directions, look-alike "
        "prefixes; judged by a realpath/component-prefix oracle plus two path-free ground truths (RECORD files of installed "
        "distributions and stdlib module origins rejected; generated user files accepted); allow-lists of 0..3 names, each in a "
        "fresh interpreter. End to end: `monkeytype run` on generated scripts (store holds exactly the called user-package "
        "functions, none of __main__/stdlib), custom filters over drawn subsets of a synthesised program's functions, twin "
        "modules with identical code. Non-trivial: a case with code on both sides of the filter; distinct by digest.")
ASSUMPTIONS = ["allow-list names are single identifiers disjoint from the directory names above the import root (DESIGN 3.11)",
               "the filter is a function of co_filename and MONKEYTYPE_TRACE_MODULES only; each configuration runs in a fresh process"]

ROOTS = sorted({os.path.realpath(p) for p in (sysconfig.get_path(n) for n in ("stdlib", "purelib", "platlib")) if p})


def under(path, root):
    a = os.path.realpath(path).split(os.sep)
    b = root.split(os.sep)
    return a[: len(b)] == b


def oracle_default(filename):
    if not filename or filename[0] == "<":
        return False
    return not any(under(filename, r) for r in ROOTS)


def fab(filename, n):
    """a code object for `filename`, unequal to every other fabricated one (code equality ignores co_filename)"""
    return compile(f"def f():\n    return ({n}, {os.getpid()})\n", filename, "exec")


def lib_files(limit=None):
    out = []
    for root in ROOTS:
        for d, dirs, files in os.walk(root):
            for f in files:
                if f.endswith(".py"):
                    out.append(os.path.join(d, f))
    out.sort()
    return out


def record_files():
    out = []
    site = [p for p in {sysconfig.get_path("purelib"), sysconfig.get_path("platlib")} if p]
    for dist in importlib.metadata.distributions(path=site):
        try:
            if json.loads(dist.read_text("direct_url.json") or "{}").get("dir_info", {}).get("editable"):
                continue  # an editable install lives in its checkout, not in site-packages
        except Exception:
            pass
        for f in dist.files or []:
            if str(f).endswith(".py"):
                p = str(dist.locate_file(f))
                if os.path.exists(p):
                    out.append(p)
    return sorted(set(out))


def stdlib_origins():
    import importlib.util
    out = []
    for name in sorted(sys.stdlib_module_names):
        try:
            spec = importlib.util.find_spec(name)
        except Exception:
            continue
        if spec and spec.origin and spec.origin.endswith(".py"):
            out.append(spec.origin)
    return out


# ---- part A: the default filter over file names -------------------------------------------------
def filter_table(ctx, scratch):
    from monkeytype.config import default_code_filter
    os.environ.pop("MONKEYTYPE_TRACE_MODULES", None)
    n = [0]

    def verdict(fn):
        n[0] += 1
        return default_code_filter(fab(fn, n[0]))

    def one(fn, cls, expected=None):
        got = verdict(fn)
        want = oracle_default(fn) if expected is None else expected
        ctx.case(["FILE", cls, fn], True, ["file-class:" + cls, "verdict:%s" % got])
        if got != want:
            ctx.fail(f"C17/default-filter-wrong:{cls}", ["FILE", cls, fn], f"default_code_filter says {got} for {fn!r}, expected {want}", raise_=False)

    files = lib_files()
    stride = 1 if ctx.tier == "thorough" else 3
    for i, fn in enumerate(files):
        if i % ctx.nshards == ctx.shard and (i // ctx.nshards) % stride == ctx.seed % stride:
            one(fn, "library-file")
    if ctx.tier == "thorough":
        # real code objects: compile (never import) each library file and walk co_consts
        import types as _t
        ncode = 0
        for i, fn in enumerate(files):
            if i % ctx.nshards != ctx.shard:
                continue
            try:
                with open(fn, "rb") as fh:
                    top = compile(fh.read(), fn, "exec", dont_inherit=True)
            except (SyntaxError, ValueError, OSError, RecursionError):
                continue
            stack = [top]
            while stack:
                c = stack.pop()
                ncode += 1
                if default_code_filter(c):
                    ctx.fail("C17/default-filter-wrong:library-code-object", ["FILE", "real-code-object", fn], f"admitted real code object {c.co_name} of {fn}", raise_=False)
                    break
                stack.extend(k_ for k_ in c.co_consts if isinstance(k_, _t.CodeType))
        ctx.extra["real_library_code_objects"] = ncode
    if ctx.shard == 0:
        for fn in record_files():
            one(fn, "distribution-RECORD-file", expected=False)
        for fn in stdlib_origins():
            one(fn, "stdlib-module-origin", expected=False)
        for fn in ["<string>", "<stdin>", "", "<frozen os>", "<frozen importlib._bootstrap>", "<doctest x[0]>"]:
            one(fn, "synthetic-name", expected=False)
        # user files, symlinks in both directions, look-alikes, relative names
        u = os.path.join(scratch, "userpkg")
        os.makedirs(u, exist_ok=True)
        uf = os.path.join(u, "mod.py")
        open(uf, "w").write("x = 1\n")
        one(uf, "user-file", expected=True)
        link = os.path.join(scratch, "linkdir")
        os.symlink(u, link)
        one(os.path.join(link, "mod.py"), "user-file-via-symlinked-dir", expected=True)
        for r in ROOTS:
            ln = os.path.join(scratch, "lib_" + os.path.basename(r).replace(".", "_"))
            if not os.path.exists(ln):
                os.symlink(r, ln)
            for rel in ("os.py", "colorsys.py", "json/decoder.py", "hypothesis/core.py", "pytest/__init__.py"):
                if os.path.exists(os.path.join(r, rel)):
                    one(os.path.join(ln, rel), "library-file-via-symlink", expected=False)
            one(r + "x/outside.py", "look-alike-prefix", expected=True)
            one(os.path.join(r, "..", "mtv_outside_%d.py" % len(r)), "dotdot-out-of-root")
            # a user package symlinked INTO a library root resolves to the user directory
        sp = sysconfig.get_path("purelib")
        inlink = os.path.join(sp, "mtv_c17_link_%d" % os.getpid())
        try:
            os.symlink(u, inlink)
            one(os.path.join(inlink, "mod.py"), "user-dir-symlinked-into-site-packages", expected=True)
        except OSError:
            pass
        finally:
            if os.path.islink(inlink):
                os.unlink(inlink)
        cwd = os.getcwd()
        try:
            os.chdir(scratch)
            one("userpkg/mod.py", "relative-user-file", expected=True)
        finally:
            os.chdir(cwd)
        # imported modules' real code objects (incl. frozen)
        cnt = 0
        for name, m in sorted(sys.modules.items()):
            for attr in list(vars(m).values()) if hasattr(m, "__dict__") else []:
                code = getattr(attr, "__code__", None)
                if code is None or not isinstance(getattr(code, "co_filename", None), str):
                    continue
                fn = code.co_filename
                if "/verif/" in fn or fn.startswith(scratch) or "/repo/" in fn or "mtv" in fn:
                    continue
                got = default_code_filter(code)
                cnt += 1
                if got != oracle_default(fn):
                    ctx.fail("C17/default-filter-wrong:imported-code", ["FILE", "imported", fn], f"{got} for real code object of {name} ({fn})", raise_=False)
                break
        ctx.extra["imported_module_code_objects"] = cnt
        # history class: identical code for two locations, both orders (listed finding)
        src = "def twin(a):\n    return a\n"
        for order in ("user-first", "library-first"):
            ua, la = os.path.join(u, f"twin_{order}_{os.getpid()}.py"), os.path.join(ROOTS[0], f"mtv_twin_{order}.py")
            ca, cb = compile(src.replace("a\n", f"(a, '{order}', {os.getpid()})\n"), ua, "exec"), compile(src.replace("a\n", f"(a, '{order}', {os.getpid()})\n"), la, "exec")
            pair = [(ca, True, ua), (cb, False, la)]
            if order == "library-first":
                pair.reverse()
            for code, want, fn in pair:
                got = default_code_filter(code)
                ctx.case(["TWIN", order, fn], True, ["twin-code-objects"])
                if got != want:
                    ctx.fail("C17/equal-code-objects-share-first-verdict", ["TWIN", order, fn],
                             f"identical function compiled for {fn}: verdict {got}, expected {want} (the first location's verdict is reused)", raise_=False)


CHILD_ALLOW = r"""
import sys, json, os
sys.path[:0] = json.loads(sys.argv[1])
from monkeytype.config import default_code_filter
cases = json.load(sys.stdin)
out = []
for i, fn in enumerate(cases):
    out.append(bool(default_code_filter(compile("def f():\n    return %d\n" % i, fn, "exec"))))
json.dump(out, sys.stdout)
"""


def allow_lists(ctx, scratch):
    """MONKEYTYPE_TRACE_MODULES: accepted iff the stem or a directory component (relative to the import root) is listed"""
    root = os.path.join(scratch, "aproot")
    layout = ["alpha/__init__.py", "alpha/core.py", "alpha/sub/deep.py", "beta.py", "gamma/alpha.py", "gamma/other.py", "alphabet/x.py"]
    for rel in layout:
        p = os.path.join(root, rel)
        os.makedirs(os.path.dirname(p), exist_ok=True)
        open(p, "w").write("x = 1\n")
    lib = []
    for r in ROOTS:
        for rel in ("colorsys.py", "json/decoder.py", "json/__init__.py", "hypothesis/core.py", "sqlite3/dbapi2.py"):
            if os.path.exists(os.path.join(r, rel)):
                lib.append((r, rel))
    cases = [(os.path.join(root, rel), rel) for rel in layout] + [(os.path.join(r, rel), rel) for r, rel in lib]
    # code without a source file is never admitted, whatever is listed: the child runs in <root>/alpha, so resolving such a
    # name against the working directory would put the listed names "alpha" (and "beta", a sibling file) on its path
    cases += [(fn, None) for fn in ("<string>", "<stdin>", "<frozen os>", "<frozen importlib._bootstrap>", "<alpha>", "<beta>", "<doctest alpha.core[0]>")]
    names_pool = ["alpha", "beta", "sub", "colorsys", "json", "decoder", "hypothesis", "zeta", "alphabet", "other"]
    # names of directory components of the library install paths: they name no package, so they admit no library file
    install_parts = sorted({c for r in ROOTS for c in r.split(os.sep) if c})
    names_pool += [c for c in install_parts if c not in names_pool][-5:]
    import itertools
    lists = [[]] + [[n] for n in names_pool] + [list(c) for c in itertools.combinations(names_pool[:6], 2)][: (4 if ctx.tier == "quick" else 15)] + [["alpha", "json", "zeta"]]
    lists.append(["alpha"] + install_parts[-2:])
    for li, names in enumerate(lists):
        if li % ctx.nshards != ctx.shard:
            continue
        env = dict(os.environ, MONKEYTYPE_TRACE_MODULES=",".join(names))
        if not names:
            env["MONKEYTYPE_TRACE_MODULES"] = ""
        p = subprocess.run([sys.executable, "-c", CHILD_ALLOW, json.dumps(sys.path)], input=json.dumps([c[0] for c in cases]),
                           capture_output=True, text=True, env=env, cwd=os.path.join(root, "alpha"))
        if p.returncode:
            raise core.HarnessError("allow-list child failed: " + p.stderr[-1500:])
        for (fn, rel), got in zip(cases, json.loads(p.stdout)):
            if rel is None:
                want = False
            else:
                parts = rel.split("/")
                stem = parts[-1][:-3]
                want = any(n == stem or n in parts[:-1] for n in names)
            ctx.case(["ALLOW", names, rel or fn], bool(names), ["allow-list:%d-names" % len(names)] + (["allow-list:synthetic-file-name"] if rel is None else []))
            if got != want:
                ctx.fail("C17/allow-list-verdict-wrong", ["ALLOW", names, fn], f"MONKEYTYPE_TRACE_MODULES={names}: {got} for {fn}, expected {want}", raise_=False)


# ---- part B: end to end ---------------------------------------------------------------------------
SCRIPT = '''
import colorsys, json, os.path
import {pkg}.core as core
from {pkg}.sub import helper
import {pkg}.__main__ as pkgmain
def local_fn(x):
    return core.double(x)
class LocalK:
    def m(self, x):
        return helper.triple(x)
{calls}
'''
PKG_CORE = '''
import colorsys
def double(x):
    return [x, x]
def unused(x):
    return x
def uses_stdlib(x):
    return colorsys.rgb_to_hls(0.1, 0.2, 0.3)
class Thing:
    def meth(self, a, b=None):
        return a
    @classmethod
    def make(cls, a):
        return cls()
    @staticmethod
    def stat(a):
        return a
def gen(n):
    for i in range(n):
        yield i
def outer_calls_inner(x):
    def inner(y):
        return [y]
    return inner(x)
def make_adder(n):
    def adder(m):
        return n + m
    return adder
def local_class_method(x):
    class Local:
        def run(self, v):
            return (v,)
    return Local().run(x)
'''
PKG_HELPER = '''
def triple(x):
    return (x, x, x)
def never(x):
    return x
'''
CALLS = {
    "core.double(1)": [("core", "double")],
    "local_fn('a')": [("core", "double")],
    "LocalK().m(2)": [("sub.helper", "triple")],
    "core.uses_stdlib(1)": [("core", "uses_stdlib")],
    "core.Thing().meth(1, b='x')": [("core", "Thing.meth")],
    "core.Thing.make(3)": [("core", "Thing.make")],
    "core.Thing.stat(3)": [("core", "Thing.stat")],
    "list(core.gen(3))": [("core", "gen")],
    "helper.triple(None)": [("sub.helper", "triple")],
    "pkgmain.entry(5)": [("__main__", "entry")],
    # functions whose qualified name contains `<locals>`: real source files of the user package, resolvable while their
    # definer is on the stack (or through the caller's local): admitted by the filter, so recorded like everything else
    "core.outer_calls_inner(1)": [("core", "outer_calls_inner"), ("core", "outer_calls_inner.<locals>.inner")],
    "add2 = core.make_adder(2); add2(3)": [("core", "make_adder"), ("core", "make_adder.<locals>.adder")],
    "core.local_class_method('v')": [("core", "local_class_method"), ("core", "local_class_method.<locals>.Local.run")],
    "json.dumps({'a': 1})": [],
    "colorsys.hls_to_rgb(0.1, 0.2, 0.3)": [],
    "os.path.join('a', 'b')": [],
}


def run_script(ctx, scratch, idx, calls, allow):
    pkg = f"c17pkg{idx}"
    root = os.path.join(scratch, f"e2e{idx}")
    os.makedirs(os.path.join(root, pkg, "sub"))
    open(os.path.join(root, pkg, "__init__.py"), "w").write("")
    open(os.path.join(root, pkg, "sub", "__init__.py"), "w").write("")
    open(os.path.join(root, pkg, "core.py"), "w").write(PKG_CORE)
    open(os.path.join(root, pkg, "sub", "helper.py"), "w").write(PKG_HELPER)
    # a package's own __main__ module, imported under its real dotted name: not the program's `__main__`
    open(os.path.join(root, pkg, "__main__.py"), "w").write("def entry(x):\n    return x\n")
    script = os.path.join(root, "main_script.py")
    open(script, "w").write(SCRIPT.format(pkg=pkg, calls="\n".join(calls)))
    db = os.path.join(root, "traces.sqlite3")
    env = dict(os.environ, MT_DB_PATH=db, PYTHONPATH=os.pathsep.join([root] + [p for p in sys.path if p]))
    env.pop("MONKEYTYPE_TRACE_MODULES", None)
    if allow is not None:
        env["MONKEYTYPE_TRACE_MODULES"] = ",".join(allow)
    as_module = idx % 2 == 1  # `monkeytype run -m <module>` for every other script
    argv = [sys.executable, "-m", "monkeytype", "run"] + (["-m", "main_script"] if as_module else [script])
    p = subprocess.run(argv, cwd=root, env=env, capture_output=True, text=True)
    spec = ["RUN", calls, allow]
    if p.returncode:
        # the scripts are fixed text that runs on the pinned tree: a failing `run` is the command's fault
        return ctx.fail("C17/run-command-fails", spec, f"{' '.join(argv[2:])}: rc={p.returncode} {p.stderr[-800:]}", raise_=False)
    con = sqlite3.connect(db)
    rows = set(con.execute("select module, qualname from monkeytype_call_traces").fetchall())
    con.close()
    want = set()
    for c in calls:
        for m, q in CALLS[c]:
            want.add((f"{pkg}.{m}", q))
    stdlib_called = any(c.startswith("colorsys.") for c in calls) or "core.uses_stdlib(1)" in calls
    if allow is not None:
        names = set(allow)
        want = {(m, q) for m, q in want if names & set(m.split("."))}
        if "colorsys" in names:
            if "colorsys.hls_to_rgb(0.1, 0.2, 0.3)" in calls:
                want |= {("colorsys", "hls_to_rgb"), ("colorsys", "_v")}
            if "core.uses_stdlib(1)" in calls:
                want |= {("colorsys", "rgb_to_hls")}
    ctx.case(spec, bool(want) and (stdlib_called or allow is not None), ["e2e-run", "allow-list" if allow is not None else "default-config"])
    main_rows = {r for r in rows if r[0] == "__main__"}
    if main_rows:
        return ctx.fail("C17/main-module-function-recorded", spec, f"rows for __main__: {sorted(main_rows)}", raise_=False)
    extra = rows - want
    missing = want - rows
    if extra:
        return ctx.fail("C17/rejected-code-recorded", spec, f"unexpected rows {sorted(extra)} (allow-list {allow})", raise_=False)
    if missing:
        return ctx.fail("C17/admitted-call-not-recorded", spec, f"missing rows {sorted(missing)} (allow-list {allow})", raise_=False)


def custom_filter_case(ctx, prog, k, subset_bits, sc):
    names = []
    for f in prog["funcs"]:
        nm = "<lambda>" if f["kind"] == "lambda" else "F%d" % f["idx"]
        names.append(nm)
    chosen = {n for i, n in enumerate(names) if subset_bits[i % len(subset_bits)]}
    inner_ok = subset_bits[-1]
    if inner_ok:
        chosen.add("inner")
    res = tracerun.run_program(prog, sc, k=k, accept=lambda code: code.co_name in chosen)
    R = res.R
    spec = ["FILTER", prog, k, subset_bits]
    rejected = {cid for cid, c in R.calls.items() if c["fn"].__code__.co_name not in chosen}
    both = bool(rejected) and len(rejected) < len(R.calls)
    ctx.case(spec, both, ["custom-filter"])
    for cid, t in R.logs:
        if t.func.__code__.co_name not in chosen:
            return ctx.fail("C17/custom-filter-rejected-function-logged", spec, f"{t.func.__qualname__} rejected by the filter but logged\n{res.src}")
    for cid in rejected:
        del R.calls[cid]
    R.completed = [c for c in R.completed if c not in rejected]
    # a trace logged while a rejected call is innermost would be flagged by attribution; windows of rejected calls are gone
    R.logs = [(cid if cid not in rejected else _enclosing(R, cid), t) for cid, t in R.logs]
    c02.check_result(ctx, prog, res, spec, pid="C17", d21=False)  # generators ended at their yield point are C02's finding


def _enclosing(R, cid):
    return cid


class ListLogger(CallTraceLogger):
    def __init__(self):
        self.t = []

    def log(self, t):
        self.t.append(t)


SESSION_SRC = "def count(x):\n    return x\n\ndef label(x):\n    return str(x)\n\ndef price(x):\n    return x * 1.5\n\ndef total(x):\n    return [x]\n"
# ... and a function whose code has no source file (generated code: what dataclasses, attrs and template engines produce)
SESSION_SRC += "exec(compile('def made(x):\\n    return (x,)\\n', '<generated>', 'exec'), globals())\n"


def session_sequence(ctx, scratch, subsets):
    """a sequence of tracing sessions in ONE process, each through monkeytype.trace(config) with the shipped store logger, its
    own SQLite file and its own custom filter (a subset of four functions; all four are called in every session): each store
    holds exactly the functions its session's filter accepted - nothing a previous session saw"""
    import importlib
    import monkeytype
    from monkeytype.config import DefaultConfig
    from monkeytype.db.sqlite import SQLiteStore
    tag = "%d_%d" % (os.getpid(), session_sequence.n)
    session_sequence.n += 1
    d = os.path.join(scratch, "sess" + tag)
    os.makedirs(d)
    name = "c17sess" + tag
    open(os.path.join(d, name + ".py"), "w").write(SESSION_SRC)
    sys.path.insert(0, d)
    spec = ["SESSIONS", [sorted(s) for s in subsets]]
    try:
        importlib.invalidate_caches()
        mod = importlib.import_module(name)
        fns = {n: getattr(mod, n) for n in ("count", "label", "price", "total", "made")}
        ctx.case(spec, len({frozenset(s) for s in subsets}) > 1, ["session-sequence"])
        state = {}

        class LongLived(DefaultConfig):
            """ONE config object for all sessions (the monkeytype_config.CONFIG style): its answers change between sessions"""

            def trace_store(self):
                return SQLiteStore.make_store(state["db"])

            def code_filter(self):
                codes_now = state["codes"]
                return lambda c: c in codes_now

        long_lived = LongLived()
        for i, accepted in enumerate(subsets):
            db = os.path.join(d, f"s{i}.sqlite3")
            codes = {fns[n].__code__ for n in accepted}
            state.update(db=db, codes=codes)

            class Cfg(DefaultConfig):
                def trace_store(self):
                    return SQLiteStore.make_store(db)

                def code_filter(self):
                    return lambda c: c in codes

            with monkeytype.trace(long_lived if len(subsets) % 2 == 0 else Cfg()):
                for f in fns.values():
                    f(i)
            con = sqlite3.connect(db)
            try:
                got = {r[0] for r in con.execute("select qualname from monkeytype_call_traces where module = ?", (name,))}
                other = con.execute("select count(*) from monkeytype_call_traces where module != ?", (name,)).fetchone()[0]
            except sqlite3.OperationalError:
                got, other = set(), 0  # the session never touched its own database file
            con.close()
            if got - set(accepted) or other:
                return ctx.fail("C17/custom-filter-rejected-function-logged", spec,
                                f"session {i} (filter accepts {sorted(accepted)}): its store holds {sorted(got)} (+{other} rows of other modules); rejected but stored: {sorted(got - set(accepted))}")
            if set(accepted) - got:
                return ctx.fail("C17/admitted-call-not-recorded", spec, f"session {i} (filter accepts {sorted(accepted)}): its store holds {sorted(got)}")
        # ... and a session whose configuration has NO code filter (code_filter() returns None, the base Config's answer):
        # every call is in scope, the function without a source file included
        db_nf = os.path.join(d, "nofilter.sqlite3")

        class NoFilter(DefaultConfig):
            def trace_store(self):
                return SQLiteStore.make_store(db_nf)

            def code_filter(self):
                return None

        with monkeytype.trace(NoFilter()):
            for f in fns.values():
                f(0)
        con = sqlite3.connect(db_nf)
        try:
            got = {r[0] for r in con.execute("select qualname from monkeytype_call_traces where module = ?", (name,))}
        except sqlite3.OperationalError:
            got = set()
        con.close()
        ctx.label("session-without-a-code-filter")
        if set(fns) - got:
            return ctx.fail("C17/admitted-call-not-recorded", spec + ["no-filter-session"], f"configuration without a code filter: its store holds {sorted(got)}, called {sorted(fns)}")
    finally:
        sys.path.remove(d)
        sys.modules.pop(name, None)


session_sequence.n = 0


def twin_modules(ctx, scratch, order_bits):
    """identical source in two packages; a custom filter accepts one of them only"""
    import importlib
    src = "def process(item):\n    return [item]\n\ndef helper(a, b=1):\n    return process(a)\n"
    tag = "%d_%d" % (os.getpid(), twin_modules.n)
    twin_modules.n += 1
    mods = {}
    for side in ("acc", "rej"):
        d = os.path.join(scratch, f"tw{side}{tag}")
        os.makedirs(d)
        open(os.path.join(d, "__init__.py"), "w").write("")
        open(os.path.join(d, "worker.py"), "w").write(src)
    sys.path.insert(0, scratch)
    importlib.invalidate_caches()
    try:
        for side in ("acc", "rej"):
            mods[side] = importlib.import_module(f"tw{side}{tag}.worker")
        lg = ListLogger()
        flt = lambda code: f"twacc{tag}" in code.co_filename
        calls = []
        with trace_calls(lg, 0, flt):
            for b in order_bits:
                side = "acc" if b else "rej"
                mods[side].helper("x" if b else 3)
                calls.append(side)
        spec = ["TWINMOD", order_bits]
        ctx.case(spec, len(set(calls)) == 2, ["twin-modules"])
        n_acc = calls.count("acc")
        bad = [t for t in lg.t if t.func.__module__ != f"twacc{tag}.worker"]
        if bad:
            return ctx.fail("C17/custom-filter-rejected-function-logged", spec, f"calls in the rejected twin module were logged: {bad[:2]}")
        wrong = [t for t in lg.t if t.func.__name__ == "helper" and t.arg_types.get("a") is not str]
        if wrong:
            return ctx.fail("C17/custom-filter-rejected-function-logged", spec, f"a rejected call was logged under the accepted twin: {wrong[:2]}")
        if len(lg.t) != 2 * n_acc:
            return ctx.fail("C17/custom-filter-accepted-function-not-logged", spec, f"{len(lg.t)} traces for {n_acc} accepted helper calls (2 each expected), order {calls}")
    finally:
        sys.path.remove(scratch)
        for side in ("acc", "rej"):
            sys.modules.pop(f"tw{side}{tag}.worker", None)
            sys.modules.pop(f"tw{side}{tag}", None)


twin_modules.n = 0


def _na(x):
    return x


def _nb(x):
    return [x]


def nested_sessions(ctx, ops):
    """a tracing session opened and closed inside another one (each with its own filter and logger): once the inner session
    is over, the outer filter's accepted functions reach the outer logger again - and never the other session's logger"""
    import contextlib
    outer, inner_logs = ListLogger(), []
    want_outer = 0
    want_inner = []
    spec = ["NESTED", ops]
    with contextlib.ExitStack() as outer_stack:
        outer_stack.enter_context(trace_calls(outer, 0, lambda c: c is _na.__code__))
        inner_stack = None
        for op in ops:
            if op == "open" and inner_stack is None:
                inner_stack = contextlib.ExitStack()
                lg = ListLogger()
                inner_logs.append(lg)
                want_inner.append(0)
                inner_stack.enter_context(trace_calls(lg, 0, lambda c: c is _nb.__code__))
            elif op == "close" and inner_stack is not None:
                inner_stack.close()
                inner_stack = None
            elif op == "a":
                _na(1)
                if inner_stack is None:
                    want_outer += 1
            elif op == "b":
                _nb(1)
                if inner_stack is not None:
                    want_inner[-1] += 1
        if inner_stack is not None:
            inner_stack.close()
    reopened = any(o == "a" for i, o in enumerate(ops) if "close" in ops[:i] and "open" in ops[:ops.index("close")]) if "close" in ops else False
    ctx.case(spec, reopened, ["nested-sessions"] + (["nested-sessions:outer-call-after-inner-closed"] if reopened else []))
    got_outer = [t for t in outer.t]
    if any(t.func is not _na for t in got_outer) or any(t.func is not _nb for lg in inner_logs for t in lg.t):
        return ctx.fail("C17/custom-filter-rejected-function-logged", spec, f"a session logged a function its filter rejects: outer={got_outer[:3]} inner={[lg.t[:2] for lg in inner_logs]}")
    # calls of the outer function made while an inner session is active are not demanded of either logger
    during = sum(1 for i, o in enumerate(ops) if o == "a") - want_outer
    if not want_outer <= len(got_outer) <= want_outer + during:
        return ctx.fail("C17/custom-filter-accepted-function-not-logged", spec,
                        f"outer session: {len(got_outer)} traces of its accepted function, {want_outer} calls were made while it was the only open session (+{during} during inner sessions); ops {ops}")
    for lg, w in zip(inner_logs, want_inner):
        if len(lg.t) != w:
            return ctx.fail("C17/custom-filter-accepted-function-not-logged", spec, f"inner session: {len(lg.t)} traces for {w} accepted calls; ops {ops}")


def shard(ctx):
    q = ctx.tier == "quick"
    scratch = tempfile.mkdtemp(prefix="c17-")
    try:
        filter_table(ctx, scratch)
        allow_lists(ctx, scratch)
        # end-to-end scripts: a seed-chosen selection of call sets per shard
        import random
        rnd = random.Random(ctx.shard_seed(5))
        keys = sorted(CALLS)
        for j in range(2 if q else 5):
            calls = rnd.sample(keys, rnd.randint(2, 7))
            if "pkgmain.entry(5)" not in calls and j % 2 == 0:
                calls.append("pkgmain.entry(5)")  # a package's own __main__ module is not the program's __main__
            allow = rnd.choice([None, None, [f"c17pkg{ctx.shard * 10 + j}"], ["sub"], ["colorsys", "core"], ["zeta"]])
            run_script(ctx, scratch, ctx.shard * 10 + j, calls, allow)
        sc = tracerun.Scratch("c17p-")
        try:
            def f1(ctx):
                @given(synth.program(max_funcs=6, max_ops=10), st.sampled_from([0, 3]), st.lists(st.booleans(), min_size=4, max_size=7))
                def test(prog, k, bits):
                    custom_filter_case(ctx, prog, k, bits, sc)
                return test

            def f2(ctx):
                @given(st.lists(st.booleans(), min_size=2, max_size=8))
                def test(bits):
                    twin_modules(ctx, scratch, bits)
                return test
            core.run_hypothesis(ctx, f1, 120 if q else 1200, salt=1)
            core.run_hypothesis(ctx, f2, 25 if q else 200, salt=2)

            def f4(ctx):
                names = ["count", "label", "price", "total", "made"]

                @given(st.lists(st.lists(st.sampled_from(names), max_size=4, unique=True), min_size=2, max_size=5))
                def test(subsets):
                    session_sequence(ctx, scratch, subsets)
                return test
            core.run_hypothesis(ctx, f4, 12 if q else 150, salt=4)

            def f3(ctx):
                @given(st.lists(st.sampled_from(["a", "b", "open", "close", "a"]), min_size=3, max_size=12))
                def test(ops):
                    nested_sessions(ctx, ops)
                return test
            core.run_hypothesis(ctx, f3, 60 if q else 600, salt=3)
        finally:
            sc.close()
    finally:
        shutil.rmtree(scratch, ignore_errors=True)


def run(ctx):
    core.run_sharded(ctx, __name__, "shard", 8 if ctx.tier == "quick" else 16)
    if ctx.tier == "thorough":
        ctx.extra["exhaustive"] = True


def replay(ctx, case):
    scratch = tempfile.mkdtemp(prefix="c17-")
    try:
        if case[0] in ("FILE", "TWIN", "ALLOW"):
            ctx.nshards, ctx.shard = 1, 0
            filter_table(ctx, scratch)
            if case[0] == "ALLOW":
                allow_lists(ctx, scratch)
        elif case[0] == "RUN":
            run_script(ctx, scratch, 0, case[1], case[2])
        elif case[0] == "NESTED":
            nested_sessions(ctx, case[1])
        elif case[0] == "SESSIONS":
            session_sequence(ctx, scratch, case[1])
        elif case[0] == "TWINMOD":
            twin_modules(ctx, scratch, case[1])
        elif case[0] == "FILTER":
            sc = tracerun.Scratch("c17p-")
            try:
                custom_filter_case(ctx, case[1], case[2], case[3], sc)
            finally:
                sc.close()
    finally:
        shutil.rmtree(scratch, ignore_errors=True)
