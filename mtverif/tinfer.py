"""Shared engine for C04/C05: shape-profiled multisets of grammar values -> inferred type -> oracle."""
import itertools

from hypothesis import given, strategies as st

from monkeytype.typing import get_type, shrink_types

from . import core, vals
from .oracle import canon, show

KS = [0, 1, 2, 3, 10, 200]


def infer(vs, k):
    return shrink_types([get_type(v, k) for v in vs], k)


def infer_via_store(vs, k):
    """as the pipeline really merges: per-value types are encoded at trace time, decoded when a stub is wanted, and only
    then merged"""
    return infer_via_store_kept(vs, k)[0]


def infer_via_store_kept(vs, k):
    """-> (merged type, the values whose per-value type decoded). A per-value type that does not decode (a class that cannot be
    found again by module + qualified name: defined inside a function) is skipped, as stub generation skips such a trace."""
    from monkeytype.encoding import type_from_json, type_to_json
    from monkeytype.exceptions import MonkeyTypeError
    types_, kept = [], []
    for v in vs:
        j = type_to_json(get_type(v, k))
        try:
            types_.append(type_from_json(j))
        except MonkeyTypeError:
            continue
        kept.append(v)
    return shrink_types(types_, k), kept


def _traced(x):
    return x


def infer_via_traces(vs, k):
    """one call trace per value (argument, return and yield position alike), merged the way stub generation merges the
    traces of one function; given the traces in the order of vs"""
    from monkeytype.stubs import shrink_traced_types
    from monkeytype.tracing import CallTrace
    traces = []
    for v in vs:
        t = get_type(v, k)
        traces.append(CallTrace(_traced, {"x": t}, t, t))
    args, ret, yld = shrink_traced_types((t for t in traces), k)  # an Iterable, as documented: here a one-shot generator
    return args["x"], ret, yld


def nontrivial(specs, k):
    shapes = {vals.shape_of(s).split(":")[0] if not s[0] == "lit" else vals.shape_of(s) for s in specs}
    has_dict = any('"dict"' in repr(s).replace("'", '"') for s in specs)
    return len(shapes) >= 2 or (k > 0 and has_dict) or any(vals.depth_of(s) >= 2 for s in specs)


def path_label(specs, k):
    if not specs:
        return "path:empty"
    shp = [vals.shape_of(s) for s in specs]
    if all(x == "strdict" for x in shp) and k > 0:
        keys = set()
        for s in specs:
            keys |= {a[1] for a, _ in s[1]}
        if all(len(s[1]) <= k for s in specs):
            return "path:all-typeddict" + ("-oversize-merge" if len(keys) > k else "")
    if len({repr(s) for s in specs}) == 1:
        return "path:all-equal"
    if all(x in ("list", "emptylist") for x in shp):
        return "path:all-lists"
    return "path:mixed"


ALPHABET = [
    ["lit", 0], ["lit", "a"], ["lit", None], ["lit", True], ["lit", 1.5],
    ["inst", "Base"], ["inst", "D1"], ["inst", "DD"], ["inst", "Mixed"], ["inst", "Outer.Inner"],
    ["cls", "Base"], ["cls", "int"], ["special", "builtin"], ["special", "func"], ["special", "genobj"],
    ["special", "MyList"], ["special", "MyDict"], ["special", "NT"],
    ["list", []], ["list", [["lit", 0]]], ["list", [["lit", 0], ["lit", "a"]]], ["list", [["list", []]]],
    ["list", [["list", [["lit", 0]]]]], ["list", [["dict", [[["lit", "a"], ["lit", 0]]]]]],
    ["list", [["dict", [[["lit", "a"], ["lit", 0]]]], ["dict", [[["lit", "b"], ["lit", "x"]]]]]],
    ["tuple", []], ["tuple", [["lit", 0]]], ["tuple", [["lit", 0], ["lit", "a"]]], ["tuple", [["list", []]]],
    ["set", []], ["set", [["lit", 0]]], ["set", [["lit", 0], ["lit", "a"]]],
    ["dict", []], ["dict", [[["lit", "a"], ["lit", 0]]]], ["dict", [[["lit", "a"], ["lit", "x"]]]],
    ["dict", [[["lit", "a"], ["lit", 0]], [["lit", "b"], ["lit", "x"]]]], ["dict", [[["lit", "b"], ["lit", 0]]]],
    ["dict", [[["lit", 0], ["lit", "a"]]]], ["dict", [[["lit", "a"], ["dict", []]]]],
    ["dict", [[["lit", "a"], ["dict", [[["lit", "b"], ["lit", 0]]]]]]],
    ["dict", [[["lit", "a"], ["lit", 0]], [["lit", 0], ["lit", 0]]]],
    ["ddict", []], ["ddict", [[["lit", 0], ["list", [["lit", 1]]]]]],
    ["list", [["dict", [[["lit", "a"], ["lit", 0]], [["lit", "c"], ["lit", 1.5]]]]]],
    ["list", [["dict", [[["lit", "a"], ["lit", 0]]]], ["dict", [[["lit", "a"], ["lit", 0]], [["lit", "b"], ["lit", "x"]]]]]],
    ["tuple", [["dict", [[["lit", "a"], ["lit", 0]], [["lit", "b"], ["lit", "x"]]]]]], ["tuple", [["dict", [[["lit", "a"], ["lit", 0]]]]]],
]


def enumeration(max_size):
    for n in range(0, max_size + 1):
        for combo in itertools.combinations_with_replacement(range(len(ALPHABET)), n):
            for k in KS:
                yield [ALPHABET[i] for i in combo], k


KEYTYPE = {"a": ["lit", 0], "b": ["lit", "x"], "c": ["lit", 1.5], "d": ["lit", None], "e": ["inst", "D1"]}


def overflow_multiset():
    """2..3 containers of records over keys a..e (value type fixed per key), with k chosen so that every
    container's own merged TypedDict fits but the merge across containers is at or just over the limit:
    the second-level merge / oversize fallback path of shrink_typed_dict_types."""
    rec = st.lists(st.sampled_from(sorted(KEYTYPE)), min_size=1, max_size=3, unique=True).map(
        lambda ks: ["dict", [[["lit", k], KEYTYPE[k]] for k in ks]])
    cont = st.tuples(st.sampled_from(["list", "list", "tuple1", "dictval"]), st.lists(rec, min_size=1, max_size=3))

    def mk(p):
        kind, recs = p
        if kind == "list":
            return ["list", recs]
        if kind == "tuple1":
            return ["tuple", recs[:1]]
        return ["dict", [[["lit", 0], recs[0]]]]

    def keys_of(c):
        rs = c[1] if c[0] in ("list", "tuple") else [c[1][0][1]]
        return set(k[1] for r in rs for k, _ in r[1])

    def fin(p):
        conts, delta = p
        conts = [mk(c) for c in conts]
        per = max(len(keys_of(c)) for c in conts)
        allk = len(set().union(*[keys_of(c) for c in conts]))
        k = [per, allk - 1, allk, per + 1][delta]
        return conts, max(k, 1)

    return st.tuples(st.lists(cont, min_size=2, max_size=3), st.integers(0, 3)).map(fin)


def case_strategy():
    vals.LABEL_KEYS[0] = True  # C04/C05 stop at inferred types: dict keys may be instances of a str subclass with its own __str__
    general = st.tuples(vals.shaped_multiset(), st.integers(0, 1000)).map(lambda p: (p[0], vals.k_for(p[0], p[1])))
    return st.tuples(
        st.one_of(general, general, general, overflow_multiset()),
        st.integers(0, 2**32).map(__import__('random').Random),
        st.lists(st.integers(1, 3), min_size=8, max_size=8),
    )


def run_engine(ctx, oracle, n_random, enum_size, enum_fraction):
    """oracle(ctx, specs, k, rnd, dups) raises core.Violation via ctx.fail for unknown signatures."""

    def factory(ctx):
        @given(case_strategy())
        def test(c):
            (specs, k), rnd, dups = c
            ctx.case([specs, k], nontrivial(specs, k), [path_label(specs, k), "k=%s" % (k if k in KS else "rel")])
            oracle(ctx, specs, k, rnd, dups)
        return test

    core.run_hypothesis(ctx, factory, n_random)
    # enumeration slice: shard i of n takes every n-th case; the quick tier additionally keeps a
    # seed-chosen residue class
    import random as _r
    stride = max(1, int(round(1 / enum_fraction)))
    off = ctx.seed % stride
    cnt = 0
    for idx, (specs, k) in enumerate(enumeration(enum_size)):
        if idx % ctx.nshards != ctx.shard:
            continue
        if (idx // ctx.nshards) % stride != off:
            continue
        cnt += 1
        ctx.case([specs, k], nontrivial(specs, k), [path_label(specs, k), "enumerated"])
        try:
            oracle(ctx, specs, k, _r.Random(idx), [2, 1, 3, 1, 2, 1, 1, 2])
        except core.Violation as v:
            ctx.record_violation(v.signature, v.spec, v.message)
    ctx.extra["enumerated_cases"] = cnt
    ctx.extra["enumeration_complete"] = 1 if stride == 1 else 0
