"""C18 - sampling thins traces without distorting them."""
import math
import random
import sys
from typing import Tuple

from hypothesis import given, strategies as st

from monkeytype.tracing import CallTraceLogger, trace_calls

from . import c02, core, synth, tracerun, vals
from .oracle import canon

LEVEL = "exploration"
RULE = ("programs as in C02 (generators and coroutines that rebind their parameters between suspensions, many "
        "resumptions, repeated schedules) x sample_rate in {None,1,2,3,10,100} x a drawn seed for the global random "
        "module; oracle: rate None/1 = full C02 oracle, otherwise every logged trace is attributed to a real call and "
        "faithful to it, at most one per call, no residue; plus the traced fraction over >=40,000 plain calls against "
        "an exact binomial acceptance interval (two-sided error 1e-9), also per function when plain calls alternate with generators resumed 1, 7 or 24 times. Non-trivial: rate>=2 and a generator/coroutine "
        "with >=2 resumptions, or a rate workload; distinct by digest of (program, rate, seed).")
ASSUMPTIONS = ["the sampler's RNG is the global `random` module, seeded from a Hypothesis-drawn integer",
               "for N=100 only gross errors are distinguishable at this sample size (stated, not hidden)"]

RATES = [None, 1, 2, 3, 10, 100]


def wrap(t, j):
    for _ in range(j):
        t = Tuple[str, t]
    return t


def midlife_matches(prog, c, t):
    """listed finding: the trace equals what starting at resumption j>=1 of this very call would record"""
    f = c02.kind_of(prog, c["fn"], None)
    if f is None or c["kind"] not in ("gen", "coro"):
        return False
    ps = f["params"]["ps"]
    first = ps[0]["name"] if ps else None
    nsusp = len(c["yields"]) if c["kind"] == "gen" else c["awaits"]
    for j in range(1, nsusp + 1):
        want = dict(c["args"])
        if first and f["rebind"] == "rebind":
            want[first] = wrap(want[first], j - 1)  # the call event of resumption j precedes the j-th rebinding
        if {k: canon(v) for k, v in want.items()} != {k: canon(v) for k, v in t.arg_types.items() if k in want}:
            continue
        if set(t.arg_types) - set(want) - set(c["variadic"]):
            continue
        if c["kind"] == "gen":
            rest = c["yields"][j:]
            if (t.yield_type is None) != (not rest):
                continue
            if rest and canon(t.yield_type) != c02.union_canon(rest):
                continue
        elif t.yield_type is not None:
            continue
        if c["outcome"] == "raise":
            if t.return_type is not None:
                continue
        elif t.return_type is None or canon(t.return_type) != canon(c["ret"]):
            continue
        return True
    return False


class Shim:
    """routes the two generator-under-sampling signatures through the listed-finding matcher"""

    def __init__(self, ctx, prog, res):
        self.ctx, self.prog, self.res = ctx, prog, res

    def __getattr__(self, n):
        return getattr(self.ctx, n)

    def fail(self, signature, spec, message, raise_=True):
        if signature.endswith(":generator-under-sampling"):
            # find the call + trace concerned and test the matcher
            by = {}
            for cid, t in self.res.R.logs:
                by.setdefault(cid, []).append(t)
            for cid, c in self.res.R.calls.items():
                for t in by.get(cid, []):
                    if c["kind"] in ("gen", "coro") and midlife_matches(self.prog, c, t):
                        # is this the failing one? the faithful ones do not reach here; accept first mismatch that matches
                        want = {k: canon(v) for k, v in c["args"].items()}
                        got = {k: canon(v) for k, v in t.arg_types.items() if k in want}
                        ys_ok = (t.yield_type is None and not c["yields"]) or (t.yield_type is not None and c["yields"] and canon(t.yield_type) == c02.union_canon(c["yields"]))
                        if want != got or not ys_ok:
                            return self.ctx.fail("C18/generator-trace-starts-mid-life", spec, message, raise_)
            signature = signature.rsplit(":", 1)[0]
        return self.ctx.fail(signature, spec, message, raise_)


def interval(n, p, eps=1e-9):
    """exact binomial acceptance interval [lo, hi] with P(X<lo)+P(X>hi) <= eps"""
    def logpmf(k):
        return (math.lgamma(n + 1) - math.lgamma(k + 1) - math.lgamma(n - k + 1) + k * math.log(p) + (n - k) * math.log1p(-p))
    lo, acc = 0, 0.0
    while True:
        acc += math.exp(logpmf(lo))
        if acc > eps / 2:
            break
        lo += 1
    hi, acc = n, 0.0
    while True:
        acc += math.exp(logpmf(hi))
        if acc > eps / 2:
            break
        hi -= 1
    return lo, hi


def _wl(x):
    return x


class Count(CallTraceLogger):
    def __init__(self):
        self.n = 0

    def log(self, t):
        self.n += 1


def rate_test(ctx, rate, ncalls, seed):
    lg = Count()
    random.seed(seed)
    code = _wl.__code__
    with trace_calls(lg, 0, lambda c: c is code, rate):
        for i in range(ncalls):
            _wl(i)
    spec = ["RATE", rate, ncalls, seed]
    ctx.case(spec, True, ["rate-workload:%s" % rate])
    if rate in (None, 1):
        if lg.n != ncalls:
            ctx.fail("C18/rate-unset-or-1-not-all-traced", spec, f"{lg.n} of {ncalls} calls traced with rate {rate}", raise_=False)
        return
    lo, hi = interval(ncalls, 1.0 / rate)
    ctx.extra.setdefault("rate_intervals", [])
    ctx.extra["rate_intervals"].append({"rate": rate, "calls": ncalls, "traced": lg.n, "accept": [lo, hi]})
    if not lo <= lg.n <= hi:
        ctx.fail("C18/traced-fraction-outside-binomial-bounds", spec,
                 f"rate {rate}: {lg.n} of {ncalls} calls traced, acceptance interval [{lo}, {hi}] for p=1/{rate}", raise_=False)


def rate_test_config(ctx, rate, ncalls, seed):
    """the rate as users set it: Config.sample_rate() (and the unset default) through monkeytype.trace(config) and the
    shipped store logger; the rows that reach the store are counted"""
    import monkeytype
    from monkeytype.config import DefaultConfig
    from monkeytype.db.base import CallTraceStore

    class CountStore(CallTraceStore):
        def __init__(self):
            self.n = 0

        def add(self, traces):
            self.n += len(list(traces))

        def filter(self, module, qualname_prefix=None, limit=2000):
            return []

    code = _wl.__code__
    store = CountStore()

    class Cfg(DefaultConfig):
        def trace_store(self):
            return store

        def code_filter(self):
            return lambda c: c is code

        if rate is not None:
            def sample_rate(self):
                return rate

    random.seed(seed)
    with monkeytype.trace(Cfg()):
        for i in range(ncalls):
            _wl(i)
    spec = ["RATECFG", rate, ncalls, seed]
    ctx.case(spec, True, ["rate-workload-through-config:%s" % rate])
    if rate in (None, 1):
        if store.n != ncalls:
            ctx.fail("C18/rate-unset-or-1-not-all-traced", spec, f"{store.n} of {ncalls} calls reached the store with Config.sample_rate() = {rate}", raise_=False)
        return
    lo, hi = interval(ncalls, 1.0 / rate)
    ctx.extra.setdefault("rate_intervals", [])
    ctx.extra["rate_intervals"].append({"rate": rate, "calls": ncalls, "traced": store.n, "accept": [lo, hi], "through": "monkeytype.trace(config)"})
    if not lo <= store.n <= hi:
        ctx.fail("C18/traced-fraction-outside-binomial-bounds", spec,
                 f"Config.sample_rate() = {rate}: {store.n} of {ncalls} calls reached the store, acceptance interval [{lo}, {hi}] for p=1/{rate}", raise_=False)


def rate_test_sessions(ctx, rate, nsessions, seed):
    """many short tracing sessions, the global RNG seeded once before the first: the k-th call of a session (k = 1..4) is
    traced in about one session in N - the sessions are not replays of one another"""
    codes = (_wl.__code__, _wl2.__code__)
    spec = ["RATESESSIONS", rate, nsessions, seed]
    ctx.case(spec, True, ["rate-workload-many-short-sessions:%s" % rate])
    lo, hi = interval(nsessions, 1.0 / rate)
    for k in range(4):
        random.seed(seed + k)
        hits = 0
        for _ in range(nsessions):
            lg = CountBy()
            with trace_calls(lg, 0, lambda c: c in codes, rate):
                for i in range(k):
                    _wl2(i)  # k earlier calls of the session, sampled like any other
                _wl(k)
            hits += lg.by.get("_wl", 0)
        ctx.extra.setdefault("rate_intervals", [])
        ctx.extra["rate_intervals"].append({"rate": rate, "calls": nsessions, "traced": hits, "accept": [lo, hi], "position_in_session": k + 1})
        if not lo <= hits <= hi:
            return ctx.fail("C18/traced-fraction-outside-binomial-bounds", spec,
                            f"rate {rate}: call number {k + 1} of each of {nsessions} sessions was sampled {hits} times, acceptance interval [{lo}, {hi}]", raise_=False)


def _wl2(x):
    return x


def rate_test_same_config(ctx, rates, ncalls, seed):
    """ONE config object whose sample_rate() answers differently from block to block (a setting changed at run time):
    every monkeytype.trace(config) block samples at the rate the config reports when the block starts"""
    import monkeytype
    from monkeytype.config import DefaultConfig
    from monkeytype.db.base import CallTraceStore

    class CountStore(CallTraceStore):
        def __init__(self):
            self.n = 0

        def add(self, traces):
            self.n += len(list(traces))

        def filter(self, module, qualname_prefix=None, limit=2000):
            return []

    code = _wl.__code__
    store = CountStore()
    flt = lambda c: c is code  # noqa: E731

    class Cfg(DefaultConfig):
        rate = None

        def trace_store(self):
            return store

        def code_filter(self):
            return flt

        def sample_rate(self):
            return self.rate

    cfg = Cfg()
    random.seed(seed)
    spec = ["RATESAMECFG", list(rates), ncalls, seed]
    ctx.case(spec, True, ["rate-workload-one-config-object-changing-rate"])
    for r in rates:
        cfg.rate = r
        before = store.n
        with monkeytype.trace(cfg):
            for i in range(ncalls):
                _wl(i)
        got = store.n - before
        if r in (None, 1):
            if got != ncalls:
                return ctx.fail("C18/rate-unset-or-1-not-all-traced", spec, f"block with Config.sample_rate() = {r} (rates so far {list(rates)}): {got} of {ncalls} calls reached the store", raise_=False)
            continue
        lo, hi = interval(ncalls, 1.0 / r)
        if not lo <= got <= hi:
            return ctx.fail("C18/traced-fraction-outside-binomial-bounds", spec,
                            f"block with Config.sample_rate() = {r} on a config object used for blocks with rates {list(rates)}: {got} of {ncalls} calls reached the store, interval [{lo}, {hi}]", raise_=False)


def _deep3(x):
    return _deep2(x)


def _deep2(x):
    return _deep1(x)


def _deep1(x):
    return x


def _countdown(n):
    return 0 if n <= 0 else 1 + _countdown(n - 1)


def rate_test_call_trees(ctx, rate, ncalls, seed):
    """traced functions calling traced functions (a chain three deep, and recursion): every function is still traced in about
    one of N of ITS calls - being called from a traced call neither exempts a call from the draw nor forces it"""
    lg = CountBy()
    random.seed(seed)
    codes = (_deep1.__code__, _deep2.__code__, _deep3.__code__, _countdown.__code__)
    with trace_calls(lg, 0, lambda c: c in codes, rate):
        for i in range(ncalls):
            _deep3(i)
        for i in range(ncalls // 4):
            _countdown(3)
    spec = ["RATETREES", rate, ncalls, seed]
    ctx.case(spec, True, ["rate-workload-call-trees:%s" % rate])
    for fn, n in (("_deep3", ncalls), ("_deep2", ncalls), ("_deep1", ncalls), ("_countdown", ncalls)):
        got = lg.by.get(fn, 0)
        lo, hi = interval(n, 1.0 / rate)
        if not lo <= got <= hi:
            return ctx.fail("C18/traced-fraction-outside-binomial-bounds", spec,
                            f"rate {rate}: {got} of {n} calls of {fn} traced (it is called from / calls other traced functions), acceptance interval [{lo}, {hi}]", raise_=False)


def _walk_pre(start, stop):
    yield start
    start = str(start)
    stop = [stop]
    yield (start, start)
    yield 1.5


def pre_started_generators(ctx, rate, n):
    """generators whose first step was taken BEFORE the tracing block (a request handler's stream, a pipeline stage) and that
    are finished inside it: their call was not seen, so nothing is logged for them - whatever the rate, unset and 1 included"""
    lg = Keep()
    code = _walk_pre.__code__
    gens = []
    for i in range(n):
        g = _walk_pre(i, i + 1)
        next(g)
        gens.append(g)
    with trace_calls(lg, 0, lambda c: c is code, rate):
        for g in gens:
            for _ in g:
                pass
    spec = ["PRESTARTED", rate, n]
    ctx.case(spec, True, ["generators-started-before-the-block:%s" % rate])
    if lg.traces:
        t = lg.traces[0]
        ctx.fail("C18/generator-trace-starts-mid-life", spec, f"rate {rate}: {len(lg.traces)} traces logged for {n} generators that were started before the block; first: args {t.arg_types} yield {t.yield_type}", raise_=False)


def _total_ge(xs):
    return sum(x for x in xs)  # the generator expression's frames cannot be resolved to a function


def _after_ge(i):
    return i


def rate_test_unresolvable(ctx, rate, ncalls, seed):
    """calls that follow frames the tracer cannot resolve to a function (a generator expression, an inline lambda): decisions
    are independent - what happened to an unresolvable frame neither forces nor spares the next call"""
    lg = CountBy()
    random.seed(seed)
    here = _total_ge.__code__.co_filename
    with trace_calls(lg, 0, lambda c: c.co_filename == here and c.co_name in ("_total_ge", "_after_ge", "<genexpr>", "<lambda>"), rate):
        for i in range(ncalls):
            _total_ge([i, 1])
            _after_ge(i)
            (lambda q: q)(i)
            _after_ge(i)
    spec = ["RATEUNRESOLVABLE", rate, ncalls, seed]
    ctx.case(spec, True, ["rate-workload-after-unresolvable-frames:%s" % rate])
    for fn, n in (("_total_ge", ncalls), ("_after_ge", 2 * ncalls)):
        got = lg.by.get(fn, 0)
        lo, hi = interval(n, 1.0 / rate)
        if not lo <= got <= hi:
            return ctx.fail("C18/traced-fraction-outside-binomial-bounds", spec,
                            f"rate {rate}: {got} of {n} calls of {fn} traced (its calls follow frames of a generator expression / an inline lambda), acceptance interval [{lo}, {hi}]", raise_=False)


def _make_primed(n):
    def local_gen(x):
        yield x
        x = str(x)
        yield x
        yield 1.5

    g = local_gen(n)
    next(g)  # primed here, where its function is findable (a local of this frame) ...
    return g  # ... and resumed by whoever receives it


def rate_test_primed_generators(ctx, rate, ncalls, seed):
    """a locally defined generator, primed by its definer and resumed from another stack, many times over: about one of its
    calls in N is traced (a call that was not sampled leaves nothing behind that could affect later calls)"""
    lg = Keep()
    random.seed(seed)
    code = [c for c in _make_primed.__code__.co_consts if hasattr(c, "co_name") and c.co_name == "local_gen"][0]
    with trace_calls(lg, 0, lambda c: c is code, rate):
        for i in range(ncalls):
            g = _make_primed(i)
            for _ in g:
                pass
    spec = ["RATEPRIMED", rate, ncalls, seed]
    ctx.case(spec, True, ["rate-workload-primed-local-generators:%s" % rate])
    got = len(lg.traces)
    for t in lg.traces:
        if dict(t.arg_types) != {"x": int}:
            return ctx.fail("C18/argument-types-differ:generator-under-sampling", spec, f"local_gen called with an int logged with {t.arg_types}", raise_=False)
    if rate in (None, 1):
        if got != ncalls:
            ctx.fail("C18/rate-unset-or-1-not-all-traced", spec, f"{got} of {ncalls} calls of a locally defined, primed generator traced with rate {rate}", raise_=False)
        return
    lo, hi = interval(ncalls, 1.0 / rate)
    if not lo <= got <= hi:
        ctx.fail("C18/traced-fraction-outside-binomial-bounds", spec,
                 f"rate {rate}: {got} of {ncalls} calls of a locally defined generator (primed by its definer, resumed elsewhere) traced, acceptance interval [{lo}, {hi}]", raise_=False)


def rate_test_nested(ctx, outer_rate, inner_rate, ncalls, seed):
    """a tracing context entered inside another one samples at ITS OWN rate and logs to ITS OWN logger"""
    outer, inner = Count(), Count()
    random.seed(seed)
    code = _wl.__code__
    with trace_calls(outer, 0, lambda c: c is code, outer_rate):
        _wl(0)
        with trace_calls(inner, 0, lambda c: c is code, inner_rate):
            for i in range(ncalls):
                _wl(i)
        before = outer.n
        for i in range(ncalls):
            _wl(i)
        after_outer = outer.n - before
    spec = ["RATENESTED", outer_rate, inner_rate, ncalls, seed]
    ctx.case(spec, True, ["rate-workload-nested-contexts:%s-in-%s" % (inner_rate, outer_rate)])
    for who, rate, got in (("inner", inner_rate, inner.n), ("outer (after the inner one closed)", outer_rate, after_outer)):
        if rate in (None, 1):
            if got != ncalls:
                ctx.fail("C18/rate-unset-or-1-not-all-traced", spec, f"{who} context with rate {rate} (outer {outer_rate}, inner {inner_rate}): {got} of {ncalls} calls traced", raise_=False)
            continue
        lo, hi = interval(ncalls, 1.0 / rate)
        if not lo <= got <= hi:
            ctx.fail("C18/traced-fraction-outside-binomial-bounds", spec,
                     f"{who} context with rate {rate} (outer {outer_rate}, inner {inner_rate}): {got} of {ncalls} calls traced, acceptance interval [{lo}, {hi}]", raise_=False)


async def _ag(n):
    yield n
    n = str(n)
    yield n
    n = [n]
    yield 1.5
    n = (n, n)
    yield None


async def _ag2(a, *, b=None):
    for i in range(5):
        yield a
        a = {i: a}
        b = b"x"


def _drive_async_gen(ag):
    out = 0
    while True:
        step = ag.__anext__()
        try:
            step.send(None)
        except StopIteration:
            out += 1
        except StopAsyncIteration:
            return out


class Keep(CallTraceLogger):
    def __init__(self):
        self.traces = []

    def log(self, t):
        self.traces.append(t)


def async_generators(ctx, rate, ncalls, seed):
    """asynchronous generators under sampling: at most one trace per call and its argument types are those of the call's
    arguments, however often the frame was resumed and whatever its parameters were rebound to meanwhile. (Their yield and
    return types are outside every listed quantifier and are not judged.)"""
    lg = Keep()
    random.seed(seed)
    codes = (_ag.__code__, _ag2.__code__)
    with trace_calls(lg, 0, lambda c: c in codes, rate):
        for i in range(ncalls):
            _drive_async_gen(_ag(i))
            _drive_async_gen(_ag2(1.5, b="s"))
    spec = ["ASYNCGEN", rate, ncalls, seed]
    ctx.case(spec, True, ["async-generators-under-sampling:%s" % rate])
    want = {"_ag": {"n": int}, "_ag2": {"a": float, "b": str}}
    per = {}
    for t in lg.traces:
        per[t.func.__name__] = per.get(t.func.__name__, 0) + 1
        if dict(t.arg_types) != want[t.func.__name__]:
            return ctx.fail("C18/argument-types-differ:generator-under-sampling", spec,
                            f"async generator {t.func.__name__} called with {want[t.func.__name__]} logged with argument types {t.arg_types} (rate {rate})", raise_=False)
    for fn, n in per.items():
        if n > ncalls:
            return ctx.fail("C18/logged-more-than-once", spec, f"{n} traces for {ncalls} calls of async generator {fn}", raise_=False)
    if rate in (None, 1) and any(per.get(fn, 0) != ncalls for fn in want):
        ctx.fail("C18/rate-unset-or-1-not-all-traced", spec, f"async generators: {per} traces for {ncalls} calls each with rate {rate}", raise_=False)


def _wg(n):
    for i in range(n):
        yield i


class CountBy(CallTraceLogger):
    def __init__(self):
        self.by = {}

    def log(self, t):
        self.by[t.func.__name__] = self.by.get(t.func.__name__, 0) + 1


def rate_test_mixed(ctx, rate, ncalls, resumes, seed):
    """about one CALL in N per function when plain calls alternate with generators that are resumed many times: a
    resumption is not a call and must not use up (or add to) anybody's share"""
    lg = CountBy()
    random.seed(seed)
    codes = (_wl.__code__, _wg.__code__)
    with trace_calls(lg, 0, lambda c: c in codes, rate):
        for i in range(ncalls):
            for _ in _wg(resumes):
                pass
            _wl(i)
    spec = ["RATEMIXED", rate, ncalls, resumes, seed]
    ctx.case(spec, True, ["rate-workload-generators-between-calls:%s" % rate])
    lo, hi = interval(ncalls, 1.0 / rate)
    for fn in ("_wl", "_wg"):
        got = lg.by.get(fn, 0)
        ctx.extra.setdefault("rate_intervals", [])
        ctx.extra["rate_intervals"].append({"rate": rate, "calls": ncalls, "traced": got, "accept": [lo, hi], "function": fn, "resumptions_per_generator": resumes})
        if not lo <= got <= hi:
            ctx.fail("C18/traced-fraction-outside-binomial-bounds", spec,
                     f"rate {rate}: {got} of {ncalls} calls of {fn} traced (each generator resumed {resumes} times between two plain calls), acceptance interval [{lo}, {hi}]", raise_=False)


_MANY = {}


def many_functions(n):
    """n distinct functions (distinct code objects), each resolvable through a module global"""
    if n not in _MANY:
        import types
        mod = types.ModuleType("mtv_many")
        src = "".join(f"def fn_{i}(x):\n    return (x, {i})\n" for i in range(n))
        exec(compile(src, "/mtv_many_functions.py", "exec"), mod.__dict__)
        sys.modules["mtv_many"] = mod
        _MANY[n] = [mod.__dict__[f"fn_{i}"] for i in range(n)]
    return _MANY[n]


def rate_test_many(ctx, rate, nfuncs, sessions, seed):
    """about one call in N also when the calls are spread over many functions and many short tracing sessions"""
    fns = many_functions(nfuncs)
    codes = {f.__code__ for f in fns}
    random.seed(seed)
    total = 0
    for _ in range(sessions):
        lg = Count()
        with trace_calls(lg, 0, lambda c: c in codes, rate):
            for f in fns:
                f(1)
        total += lg.n
    ncalls = nfuncs * sessions
    spec = ["RATEMANY", rate, nfuncs, sessions, seed]
    ctx.case(spec, True, ["rate-workload-many-functions:%s" % rate])
    lo, hi = interval(ncalls, 1.0 / rate)
    ctx.extra.setdefault("rate_intervals", [])
    ctx.extra["rate_intervals"].append({"rate": rate, "calls": ncalls, "traced": total, "accept": [lo, hi], "functions": nfuncs, "sessions": sessions})
    if not lo <= total <= hi:
        ctx.fail("C18/traced-fraction-outside-binomial-bounds", spec,
                 f"rate {rate}: {total} of {ncalls} calls traced ({nfuncs} functions x {sessions} sessions), acceptance interval [{lo}, {hi}]", raise_=False)


def run_case(ctx, prog, k, rate, seed, sc):
    res = tracerun.run_program(prog, sc, k=k, sample_rate=rate, rng_seed=seed)
    R = res.R
    multi = any(c["kind"] in ("gen", "coro") and c["resumes"] >= 3 for c in R.calls.values())
    ctx.case([prog, k, rate, seed], bool(rate and rate >= 2 and multi), ["rate=%s" % rate] + (["generator>=3-resumptions"] if multi else []))
    spec = [prog, k, rate, seed]
    sampled = rate not in (None, 1)
    c02.check_result(Shim(ctx, prog, res) if sampled else ctx, prog, res, spec, sampled=sampled, pid="C18")
    if sampled:
        ctx.label("sampled-programs")
        ctx.extra["calls_finished"] = ctx.extra.get("calls_finished", 0) + sum(1 for c in R.calls.values() if c["state"] == "done")
        ctx.extra["traces_logged"] = ctx.extra.get("traces_logged", 0) + len(R.logs)


def shard(ctx):
    q = ctx.tier == "quick"
    sc = tracerun.Scratch("c18-")
    try:
        def factory(ctx):
            @given(synth.program(max_funcs=5 if q else 8, max_ops=10 if q else 24), st.sampled_from([0, 0, 3]),
                   st.sampled_from([2, 3, None, 10, 2, 1, 100, 3, 2]), st.integers(0, 2**31))  # None/1 not first: Hypothesis correlates 'simplest' draws
            def test(prog, k, rate, seed):
                run_case(ctx, prog, k, rate, seed, sc)
            return test
        core.run_hypothesis(ctx, factory, 450 if q else 3000)
    finally:
        sc.close()
    # the rate workload: one (rate, seed) per shard
    n = 40000 if q else 200000
    plan = [(r, s) for s in range(2) for r in RATES]
    for i, (r, s) in enumerate(plan):
        if i % ctx.nshards == ctx.shard:
            rate_test(ctx, r, n if r != 100 else n, ctx.seed * 1000 + s)
            rate_test_config(ctx, r, n // 4, ctx.seed * 1000 + s + 3)
            rate_test_primed_generators(ctx, r, n // 8, ctx.seed * 1000 + s + 41)
            if r not in (None, 1):
                rate_test_call_trees(ctx, r, n // 4, ctx.seed * 1000 + s + 37)
                rate_test_unresolvable(ctx, r, n // 4, ctx.seed * 1000 + s + 41)
                rate_test_sessions(ctx, r, 3000 if q else 20000, ctx.seed * 1000 + s + 29)
            rate_test_same_config(ctx, [RATES[(i + j) % len(RATES)] for j in range(3)], n // 8, ctx.seed * 1000 + s + 31)
            async_generators(ctx, r, 300 if q else 3000, ctx.seed * 1000 + s + 17)
            pre_started_generators(ctx, r, 50 if q else 500)
            rate_test_nested(ctx, r, RATES[(i + 1) % len(RATES)], n // 8, ctx.seed * 1000 + s + 19)
            rate_test_nested(ctx, RATES[(i + 2) % len(RATES)], r, n // 8, ctx.seed * 1000 + s + 23)
            if r not in (None, 1):
                rate_test_many(ctx, r, 400, 25 if q else 100, ctx.seed * 1000 + s + 7)
                rate_test_mixed(ctx, r, 4000 if q else 20000, [1, 7, 24][(i + ctx.seed) % 3], ctx.seed * 1000 + s + 13)


def run(ctx):
    core.run_sharded(ctx, __name__, "shard", 8 if ctx.tier == "quick" else 16)


def replay(ctx, case):
    if case[0] == "RATE":
        return rate_test(ctx, case[1], case[2], case[3])
    if case[0] == "RATEPRIMED":
        return rate_test_primed_generators(ctx, case[1], case[2], case[3])
    if case[0] == "PRESTARTED":
        return pre_started_generators(ctx, case[1], case[2])
    if case[0] == "RATEUNRESOLVABLE":
        return rate_test_unresolvable(ctx, case[1], case[2], case[3])
    if case[0] == "RATETREES":
        return rate_test_call_trees(ctx, case[1], case[2], case[3])
    if case[0] == "RATESESSIONS":
        return rate_test_sessions(ctx, case[1], case[2], case[3])
    if case[0] == "RATESAMECFG":
        return rate_test_same_config(ctx, case[1], case[2], case[3])
    if case[0] == "RATENESTED":
        return rate_test_nested(ctx, case[1], case[2], case[3], case[4])
    if case[0] == "ASYNCGEN":
        return async_generators(ctx, case[1], case[2], case[3])
    if case[0] == "RATECFG":
        return rate_test_config(ctx, case[1], case[2], case[3])
    if case[0] == "RATEMIXED":
        return rate_test_mixed(ctx, case[1], case[2], case[3], case[4])
    if case[0] == "RATEMANY":
        return rate_test_many(ctx, case[1], case[2], case[3], case[4])
    sc = tracerun.Scratch("c18-")
    try:
        run_case(ctx, case[0], case[1], case[2], case[3], sc)
    finally:
        sc.close()
