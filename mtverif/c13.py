"""C13 - existing source annotations are kept, omitted or overridden exactly as requested."""
import collections.abc
import io
import os
import typing
from typing import Generator, Iterator, Optional, Union

from hypothesis import given, strategies as st

from monkeytype import cli
from monkeytype.db.sqlite import SQLiteStore
from monkeytype.stubs import ExistingAnnotationStrategy as EAS

from . import c12, core, oracle, sigsynth, stubread, tracerun

LEVEL = "exploration"
RULE = ("generated signatures as in C12 x every drawn subset of parameters and the return annotated in source (class, generic, "
        "Optional, string forward reference, NewType) x every drawn subset of positions traced x strategy in {REPLICATE, OMIT, "
        "IGNORE} x outcome in {return, yield, yield+return, yield+None, exception}; exhaustive matrix annotated? x traced? x "
        "default(None/other/none) x strategy x outcome for one- and two-parameter functions and methods; also through "
        "`monkeytype stub` flags on a scratch database. Oracle: per-position decision table written from the statement. "
        "Non-trivial: >=1 annotated and >=1 traced position, not all the same; distinct by digest.")
ASSUMPTIONS = ["source never annotates self/cls (DESIGN 3.8)", "IGNORE with annotated+untraced position: keeping the source annotation or none are both accepted (DESIGN 3.9)"]


def is_optional(t):
    return oracle.origin(t) is Union and type(None) in oracle.args(t)


def table(ctx, spec, mod, funcs, live, stub, strat, text, src, rw=None):
    """rw: the configured type rewriter (None = none): a TRACED type appears as the rewriter leaves it (what the rewriters
    do is C07's business); a SOURCE annotation is never rewritten"""
    if stub["syntax_error"] is not None:
        return  # C12 owns syntax (nested headers are already rewritten by the reader)
    if rw is not None:
        def _rw(T):
            return None if T is None else rw.rewrite(T)
        live = {key: (fn, f, {n: _rw(T) for n, T in at.items()}, _rw(rt), _rw(yt)) for key, (fn, f, at, rt, yt) in live.items()}
    ns = dict(vars(typing))
    ns.update(vars(mod))
    any_anno = any_traced = False
    for key, (fn, f, at, rt, yt) in live.items():
        infos = stub["funcs"].get(key)
        if not infos:
            continue  # C12 owns the function set
        info = infos[0]
        where = ".".join(key[0] + (key[1],))

        def got_canon(entry):
            srctext, ty = entry
            return stubread.canon_of(ty, stub, ns)

        def expect(pos, entry, want_t, label):
            if entry is None:
                return ctx.fail(f"C13/annotation-missing:{label}", spec, f"{where} {pos}: expected {want_t} [{strat.name}]\n{src}\n{text}")
            try:
                g = got_canon(entry)
                w = stubread.canon_src(want_t, ns)
            except stubread.StubError as e:
                if e.kind in ("typeddict-class-name-collision", "annotation-does-not-evaluate", "unresolvable-forward-reference"):
                    return  # C11 owns self-containedness
                raise
            if g != w:
                return ctx.fail(f"C13/annotation-wrong:{label}", spec, f"{where} {pos}: stub says {entry[0]}, expected {want_t} [{strat.name}]\n{src}\n{text}")

        for p in f["ps"]:
            name = p["name"]
            T = at.get(name)
            entry = info["args"].get(name)
            src_anno = eval(p["anno"], ns) if p["anno"] else None
            any_anno |= src_anno is not None
            any_traced |= T is not None

            def with_default(t):
                return Optional[t] if p["default"] == "None" and not is_optional(t) else t

            if strat == EAS.REPLICATE:
                if src_anno is not None:
                    expect(name, entry, with_default(src_anno), "replicate-source")
                elif T is not None:
                    expect(name, entry, with_default(T), "replicate-traced")
                elif entry is not None:
                    return ctx.fail("C13/annotation-invented", spec, f"{where} {name}: {entry[0]} [{strat.name}]\n{src}\n{text}")
            elif strat == EAS.OMIT:
                if src_anno is not None:
                    if entry is not None:
                        return ctx.fail("C13/omit-kept-source-annotation", spec, f"{where} {name}: {entry[0]}\n{src}\n{text}")
                elif T is not None:
                    expect(name, entry, with_default(T), "omit-traced")
                elif entry is not None:
                    return ctx.fail("C13/annotation-invented", spec, f"{where} {name}: {entry[0]} [{strat.name}]\n{src}\n{text}")
            else:
                if T is not None:
                    expect(name, entry, with_default(T), "ignore-traced")
                elif src_anno is None and entry is not None:
                    return ctx.fail("C13/annotation-invented", spec, f"{where} {name}: {entry[0]} [{strat.name}]\n{src}\n{text}")
                elif src_anno is not None and entry is not None:
                    expect(name, entry, with_default(src_anno), "ignore-untraced-keeps-source")
        if strat == EAS.OMIT and f.get("recv_anno") and f["where"] in ("method", "inner", "deep", "genmethod", "asyncmethod", "property", "subproperty") and "self" in info["args"]:
            return ctx.fail("C13/omit-kept-source-annotation", spec, f"{where} self: {info['args']['self'][0]}\n{src}\n{text}")
        for v, v_anno in ((f["varargs"], int), (f["varkw"], str)):
            # variadic parameters are never traced here; the source annotates them when it annotates the return
            v_src = v_anno if (v and f["ret_anno"]) else None
            v_entry = info["args"].get(v) if v else None
            any_anno |= v_src is not None
            if not v or v in at:
                continue
            if v_src is not None and strat == EAS.OMIT:
                if v_entry is not None:
                    return ctx.fail("C13/omit-kept-source-annotation", spec, f"{where} {v}: {v_entry[0]}\n{src}\n{text}")
            elif v_src is not None and strat == EAS.REPLICATE:
                expect(v, v_entry, v_src, "replicate-source")
            elif v_src is not None:
                if v_entry is not None:  # as for named parameters: an untraced position may keep its source annotation or show none
                    expect(v, v_entry, v_src, "ignore-untraced-keeps-source")
            elif v_entry is not None:
                return ctx.fail("C13/annotation-invented", spec, f"{where} {v}: {v_entry[0]}\n{src}\n{text}")
        # return position
        ret_src = eval(f["ret_anno"], ns) if f["ret_anno"] else None
        any_anno |= ret_src is not None
        if yt is not None and (rt is None or rt is type(None)):
            traced_ret = Iterator[yt]
        elif yt is not None:
            traced_ret = Generator[yt, None, rt]
        else:
            traced_ret = rt
        any_traced |= traced_ret is not None
        entry = info["returns"]
        if strat == EAS.REPLICATE and ret_src is not None:
            expect("return", entry, ret_src, "replicate-source-return")
        elif strat == EAS.OMIT and ret_src is not None:
            if entry is not None:
                return ctx.fail("C13/omit-kept-source-annotation", spec, f"{where} return: {entry[0]}\n{src}\n{text}")
        elif traced_ret is not None:
            expect("return", entry, traced_ret, f"{strat.name.lower()}-traced-return")
        elif entry is not None:
            if strat == EAS.IGNORE and ret_src is not None:
                expect("return", entry, ret_src, "ignore-untraced-keeps-source")
            else:
                return ctx.fail("C13/annotation-invented", spec, f"{where} return: {entry[0]} [{strat.name}]\n{src}\n{text}")
    ctx.label("positions-annotated-and-traced" if any_anno and any_traced else "positions-one-sided")


def cli_path(ctx, funcs, strat, k, sc, rw_name="noop", disable=False):
    """the same decision table on the text printed by `monkeytype stub [--ignore-existing-annotations|--omit-existing-annotations]`
    for traces that went through a scratch SQLite database"""
    import importlib
    import tempfile
    from monkeytype.stubs import ExistingAnnotationStrategy
    src = sigsynth.render(funcs, annotate_receiver=strat == EAS.OMIT)
    for f_ in funcs:
        f_.pop("_annotate_receiver", None)
    name, path = sc.new_module(src, stem="mtv_sigcli")
    spec = ["CLI", funcs, strat.name, k, rw_name, disable]
    db = os.path.join(sc.dir, name + ".sqlite3")
    try:
        mod = importlib.import_module(name)
        traces, live = sigsynth.traces_for(mod, funcs, k)
        if not traces or sigsynth.uses_hostile(funcs):
            return
        os.environ.update(MTV_DB=db, MTV_K=str(k), MTV_RW=rw_name)
        os.environ.pop("MTV_ONLY", None)
        store = SQLiteStore.make_store(db)
        store.add(traces)
        store.conn.close()
        flag = {EAS.REPLICATE: [], EAS.IGNORE: ["--ignore-existing-annotations"], EAS.OMIT: ["--omit-existing-annotations"]}[strat]
        out, err = io.StringIO(), io.StringIO()
        try:
            rc = cli.main(["-c", "fx_cfg:CONFIG"] + (["--disable-type-rewriting"] if disable else []) + ["stub"] + flag + [name], out, err)
        except Exception as e:
            ctx.label("cli-crash:" + type(e).__name__)
            return
        text = out.getvalue()
        if rc != 0 or not text.strip():
            return ctx.fail("C13/cli-produced-no-stub", spec, f"rc={rc} {err.getvalue()[:300]}\n{src}")
        ctx.case(spec, True, ["cli-path", "strategy:" + strat.name, "cli-rewriter:" + rw_name, "cli-disable-type-rewriting=%s" % disable])
        stub = stubread.read_stub(text, vars(mod))
        from monkeytype.typing import DEFAULT_REWRITER
        table(ctx, spec, mod, funcs, live, stub, strat, text, src, rw=DEFAULT_REWRITER if rw_name == "default" and not disable else None)
    finally:
        sc.drop(name, path)
        if os.path.exists(db):
            os.unlink(db)


def exhaustive_matrix(ctx, sc):
    import itertools
    idx = 0
    annos = [None, "int", "Optional[str]", '"Helper"', "UserId"]
    for where in ("top", "method", "gen"):
        for (a1, t1, d1), (a2, t2, d2) in itertools.product(itertools.product(annos, [0, 1, 5], [None, "None", "1"]), [(None, 0, None), ("List[int]", 2, "None"), (None, 3, None)]):
            for ret_anno, outcome in itertools.product([None, "int", "List[int]"], ["return", "yield", "yield+return", "yield+none", "exception"]):
                if where != "gen" and outcome.startswith("yield"):
                    continue
                idx += 1
                if idx % ctx.nshards != ctx.shard or (ctx.tier == "quick" and idx % 5 != ctx.seed % 5):
                    continue
                ps = [dict(name="a", kind=1, default=d1, anno=a1, traced=t1), dict(name="b", kind=1 if d2 or not d1 else 2, default=d2, anno=a2, traced=t2)]
                f = dict(i=0, ps=ps, varargs=None, varkw=None, where=where, ret_anno=ret_anno, outcome=outcome, ret_traced=2, yield_traced=1, is_traced=True, fname="fm")
                for strat in EAS:
                    try:
                        c12.check_module(ctx, [f], strat, 0, sc, pid="C13", c13=table)
                    except core.Violation as v:
                        ctx.record_violation(v.signature, v.spec, v.message)


def shard(ctx):
    q = ctx.tier == "quick"
    sc = tracerun.Scratch("c13-")
    try:
        def factory(ctx):
            @given(sigsynth.module(), st.sampled_from(list(EAS)), st.sampled_from([0, 0, 3]), st.booleans())
            def test(funcs, strat, k, rw):
                from monkeytype.typing import DEFAULT_REWRITER
                import functools
                c12.check_module(ctx, funcs, strat, k, sc, pid="C13", c13=functools.partial(table, rw=DEFAULT_REWRITER) if rw else table,
                                 rewriter=DEFAULT_REWRITER if rw else None)
            return test
        core.run_hypothesis(ctx, factory, 400 if q else 4000)
        exhaustive_matrix(ctx, sc)

        def factory2(ctx):
            @given(sigsynth.module(), st.sampled_from(list(EAS)), st.sampled_from([0, 0, 3]), st.sampled_from(["noop", "default", "default"]), st.booleans())
            def test(funcs, strat, k, rw_name, disable):
                cli_path(ctx, funcs, strat, k, sc, rw_name, disable)
            return test
        core.run_hypothesis(ctx, factory2, 40 if q else 400, salt=3)
    finally:
        sc.close()


def run(ctx):
    core.run_sharded(ctx, __name__, "shard", 8 if ctx.tier == "quick" else 16)


def replay(ctx, case):
    sc = tracerun.Scratch("c13-")
    try:
        if case[0] == "CLI":
            return cli_path(ctx, case[1], EAS[case[2]], case[3], sc, *(case[4:6] if len(case) > 5 else ()))
        from monkeytype.typing import DEFAULT_REWRITER
        import functools
        rw = "rewriter:default" in case[4:]
        c12.check_module(ctx, case[1], EAS[case[2]], case[3], sc, pid="C13", c13=functools.partial(table, rw=DEFAULT_REWRITER) if rw else table,
                         rewriter=DEFAULT_REWRITER if rw else None)
    finally:
        sc.close()
