"""C04 - inferred types admit every observed value, for every TypedDict size limit; order/multiplicity free."""
import random

from . import core, tinfer, vals
from .oracle import canon, conforms, first_rejected, show

LEVEL = "exploration"
RULE = ("shape-profiled multisets (0..5 values, depth<=3) of the value grammar x TypedDict limit k in "
        "{0,1,2,3,10,200} and limits relative to the case's key counts, plus an exhaustive enumeration of "
        "multisets of a 43-element value alphabet (size<=2 thorough, slice in quick); each presented again "
        "permuted and with duplicated members. Non-trivial: >=2 values of different shape, or a dict with k>0, "
        "or nesting depth>=2; distinct by digest of (value specs, k).")
ASSUMPTIONS = ["values are trees (no self-containing containers)", "classes importable by module+qualname",
               "membership decided by mtverif.oracle.conforms (independent of MonkeyType)"]


def oracle(ctx, specs, k, rnd, dups):
    vs = [vals.build(s) for s in specs]
    try:
        T = tinfer.infer(vs, k)
    except Exception as e:
        return ctx.fail(f"C04/inference-raises:{type(e).__name__}", [specs, k], repr(e))
    for s, v in zip(specs, vs):
        if not conforms(v, T):
            rej = first_rejected(v, T)
            return ctx.fail("C04/value-not-admitted", [specs, k],
                            f"value {s} not a member of inferred {show(T)} (k={k}); innermost rejected: {rej[0]} {rej[1]!r}")
    # merging must not change the types it is given: the SAME per-value type objects are first merged together with a value of
    # another shape (stub generation merges the traces of all functions that share a type object) and then once more on their own
    try:
        from monkeytype.typing import get_type as _gt, shrink_types as _st
        objs = [_gt(v, k) for v in vs]
        _st(objs + [_gt(7, k), _gt((1, "x"), k)], k)
        again = _st(objs, k)
    except Exception as e:
        return ctx.fail(f"C04/inference-raises:{type(e).__name__}", [specs, k, "merged-twice"], repr(e))
    if canon(again) != canon(T):
        return ctx.fail("C04/order-or-multiplicity-dependent", [specs, k, "merged-twice"],
                        f"{show(T)} for {specs}, but {show(again)} when the same type objects had been through another merge before (k={k})")
    importable = "twin" not in repr(specs)  # two classes that print alike cannot both be found again by module + qualname
    try:
        vstore = [vals.build(s) for s in specs]
        Ts, kept = tinfer.infer_via_store_kept(vstore, k) if importable else (T, vs)
    except Exception as e:
        return ctx.fail(f"C04/inference-raises:{type(e).__name__}", [specs, k, "via-store"], "merging decoded per-value types: " + repr(e))
    kept_ids = {id(x) for x in kept}
    for s, v in zip(specs, vstore if importable else vs):
        if id(v) in kept_ids and not conforms(v, Ts):
            return ctx.fail("C04/value-not-admitted", [specs, k, "via-store"],
                            f"value {s} not a member of {show(Ts)} merged from the decoded per-value types (k={k})")
    if vals.has_repeated_container(specs):
        # the same values with aliasing: equal container sub-values are ONE object referenced from several positions
        memo = {}
        vsh = [vals.build_shared(s, memo) for s in specs]
        ctx.label("aliased-presentation")
        try:
            Tsh = tinfer.infer(vsh, k)
        except Exception as e:
            return ctx.fail(f"C04/inference-raises:{type(e).__name__}", [specs, k, "aliased"], repr(e))
        for s, v in zip(specs, vsh):
            if not conforms(v, Tsh):
                return ctx.fail("C04/value-not-admitted", [specs, k, "aliased"], f"value {s} (equal sub-containers shared as one object) not a member of inferred {show(Tsh)} (k={k})")
        if canon(Tsh) != canon(T):
            return ctx.fail("C04/order-or-multiplicity-dependent", [specs, k, "aliased"],
                            f"{show(T)} for {specs} but {show(Tsh)} when equal sub-containers are one shared object (k={k})")
    if len(specs) >= 1:
        idx = list(range(len(specs)))
        rnd.shuffle(idx)
        pres = []
        for j, i in enumerate(idx):
            pres += [specs[i]] * dups[j % len(dups)]
        rnd.shuffle(pres)
        vs2 = [vals.build(s) for s in pres]
        try:
            T2 = tinfer.infer(vs2, k)
        except Exception as e:
            return ctx.fail(f"C04/inference-raises:{type(e).__name__}", [pres, k], repr(e))
        if canon(T2) != canon(T):
            return ctx.fail("C04/order-or-multiplicity-dependent", [specs, k, pres],
                            f"{show(T)} for {specs} but {show(T2)} for presentation {pres} (k={k})")
        ctx.label("presentations")
        # the merge over call traces (what stub generation runs): one trace per value, in the two orders
        got = []
        for order in (specs, pres):
            try:
                got.append(tinfer.infer_via_traces([vals.build(s) for s in order], k))
            except Exception as e:
                return ctx.fail(f"C04/inference-raises:{type(e).__name__}", [specs, k, order, "via-traces"], "merging the traces' types: " + repr(e))
        for pos in range(3):
            for s, v in zip(specs, vs):
                if not conforms(v, got[0][pos]):
                    return ctx.fail("C04/value-not-admitted", [specs, k, "via-traces"],
                                    f"value {s} not a member of {show(got[0][pos])} merged over the call traces (position {pos}, k={k})")
            if canon(got[0][pos]) != canon(got[1][pos]):
                return ctx.fail("C04/order-or-multiplicity-dependent", [specs, k, pres, "via-traces"],
                                f"merged over call traces (position {('argument', 'return', 'yield')[pos]}): {show(got[0][pos])} for {specs} but {show(got[1][pos])} for presentation {pres} (k={k})")


def big_containers(ctx):
    """containers of several hundred to a few thousand elements whose LAST element has a type none of the others has: every
    element counts, however many there are"""
    import random as _r
    odd = [["lit", "odd"], ["lit", None], ["dict", [[["lit", "a"], ["lit", 0]], [["lit", "b"], ["lit", None]]]], ["inst", "D1"]]
    for n in (300, 513, 1000, 3000):
        for kind in ("list", "set", "tuple-in-list", "dictvalues"):
            for o in odd:
                if kind == "set" and o[0] == "dict":
                    continue
                if kind == "list":
                    spec = ["list", [["lit", i] for i in range(n)] + [o]]
                elif kind == "set":
                    spec = ["set", [["lit", i] for i in range(n)] + [o if o[0] != "inst" else ["lit", "odd"]]]
                elif kind == "tuple-in-list":
                    spec = ["list", [["list", [["lit", i] for i in range(n)] + [o]]]]
                else:
                    spec = ["dict", [[["lit", i], ["lit", i]] for i in range(n)] + [[["lit", n], o]]]
                for k in (0, 3):
                    ctx.case(["BIG", kind, n, o, k], True, ["big-container:%s" % kind])
                    try:
                        oracle(ctx, [spec], k, _r.Random(n), [1] * 8)
                    except core.Violation as v:
                        ctx.record_violation("C04/value-not-admitted", ["BIG", kind, n, o, k], f"a {kind} of {n} elements plus one {o}: " + v.message[-300:])


def shard(ctx):
    q = ctx.tier == "quick"
    if ctx.shard == 1 % ctx.nshards:
        big_containers(ctx)
    tinfer.run_engine(ctx, oracle, 1500 if q else 15000, 2, 0.25 if q else 1.0)


def run(ctx):
    core.run_sharded(ctx, __name__, "shard", 8 if ctx.tier == "quick" else 16)
    if ctx.tier == "thorough":
        ctx.extra["exhaustive"] = bool(ctx.extra.get("enumeration_complete"))
        core.run_fuzz(ctx, 60000)


def replay(ctx, case):
    if case and case[0] == "BIG":
        return big_containers(ctx)
    specs, k = case[0], case[1]
    oracle(ctx, specs, k, random.Random(0), [2, 1, 3, 1, 2, 1, 1, 2])
    if len(case) > 3 and case[3] == "via-traces" and not isinstance(case[2], str):
        a = tinfer.infer_via_traces([vals.build(s) for s in specs], k)
        b = tinfer.infer_via_traces([vals.build(s) for s in case[2]], k)
        for pos in range(3):
            if canon(a[pos]) != canon(b[pos]):
                ctx.fail("C04/order-or-multiplicity-dependent", case, f"{show(a[pos])} vs {show(b[pos])}")
    elif len(case) > 2 and not isinstance(case[2], str):
        T = tinfer.infer([vals.build(s) for s in specs], k)
        T2 = tinfer.infer([vals.build(s) for s in case[2]], k)
        if canon(T) != canon(T2):
            ctx.fail("C04/order-or-multiplicity-dependent", case, f"{show(T)} vs {show(T2)}")
