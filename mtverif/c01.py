"""C01 - emitted annotations admit every value seen at runtime (run -> store -> stub)."""
import collections
import collections.abc
import io
import os
import shutil
import tempfile
import typing
from typing import Union

from hypothesis import given, strategies as st

import monkeytype
from monkeytype import cli
from monkeytype.config import DefaultConfig

from . import core, oracle, stubread, synth, tracerun, vals

def snapshot(v):
    """the value as it is NOW (containers copied, exact container classes kept): a traced function may change its argument in
    place afterwards"""
    t = type(v)
    if t is list:
        return [snapshot(e) for e in v]
    if t is tuple:
        return tuple(snapshot(e) for e in v)
    if t is set:
        return set(v)
    if t is dict:
        return {k_: snapshot(x) for k_, x in v.items()}
    if t is collections.defaultdict:
        d = collections.defaultdict(v.default_factory)
        for k_, x in v.items():
            d[k_] = snapshot(x)
        return d
    return v


LEVEL = "exploration"
RULE = ("synthesised target modules (functions, instance/class/static methods, properties, inherited/overridden methods, nested "
        "functions, closures, wraps-decorated functions, inner-class methods; plain / generator / coroutine flavours; optional "
        "truthful source annotations) driven by a drawn call history with arguments from the value grammar, split into 1..3 "
        "tracing blocks; the real pipeline monkeytype.trace(config) -> CallTraceStoreLogger -> SQLite file -> `monkeytype stub` "
        "with k in {0,1,2,3,10} x rewriter in {none, each shipped rewriter, default chain} x CLI flags {default, ignore, omit, "
        "disable-rewriting}, one config in five the unmodified DefaultConfig. Oracle: every value the program recorded at a "
        "position is a member of the annotation the stub text evaluates to (with the names the stub provides). Non-trivial: a "
        "position saw >=2 values of different shape or a container value; distinct by digest of (program, configuration).")
ASSUMPTIONS = ["only kinds the tracer must resolve are generated (lambdas etc. belong to C02)", "generators are run to completion inside the tracing block that started them",
               "module names without textual overlap, unique parameter names, identifier dict keys (triggers of C11/C12 findings are avoided and counted)"]

KINDS = [k for k in synth.KINDS if k not in synth.MAY]
FLAGS = [[], ["--ignore-existing-annotations"], ["--omit-existing-annotations"], ["--disable-type-rewriting"]]
RWS = ["noop", "default", "rec", "cd", "lu", "lu2", "mscb", "gen"]


def stub_member(v, T, stub):
    """lenient membership against an evaluated stub annotation (forward references = the stub's TypedDict classes)"""
    if isinstance(T, str):
        T = typing.ForwardRef(T)
    if isinstance(T, typing.ForwardRef):
        name = T.__forward_arg__
        if name not in stub["tdclasses"]:
            raise stubread.StubError("unresolvable-forward-reference", name)
        if not isinstance(v, dict):
            return False
        req, opt = td_fields(name, stub)
        ks = set(v)
        return set(req) <= ks <= set(req) | set(opt) and all(stub_member(v[k], req[k] if k in req else opt[k], stub) for k in ks)
    if isinstance(T, stubread.StubError):
        raise T
    if T is None:
        return v is None
    o = typing.get_origin(T)
    a = typing.get_args(T)
    if o is Union:
        return any(stub_member(v, m, stub) for m in a)
    if o in (list, set):
        return isinstance(v, o) and all(stub_member(e, a[0], stub) for e in v)
    if o in (dict, collections.defaultdict):
        return isinstance(v, o) and all(stub_member(x, a[0], stub) and stub_member(y, a[1], stub) for x, y in v.items())
    if o is tuple:
        if not isinstance(v, tuple):
            return False
        if a == ():
            return len(v) == 0
        if len(a) == 2 and a[1] is Ellipsis:
            return all(stub_member(e, a[0], stub) for e in v)
        return len(v) == len(a) and all(stub_member(e, x, stub) for e, x in zip(v, a))
    return oracle.conforms(v, T)


def td_fields(name, stub, seen=()):
    c = stub["tdclasses"][name]
    req, opt = {}, {}
    for b in c["bases"]:
        if b in stub["tdclasses"] and b not in seen:
            r, o = td_fields(b, stub, seen + (name,))
            req.update(r)
            opt.update(o)
    own = {k: e[1] for k, e in c["evaluated"].items()}
    (req if c["total"] else opt).update(own)
    return req, opt


class Env:
    def __init__(self):
        self.sc = tracerun.Scratch("c01-")
        self.n = 0

    def close(self):
        self.sc.close()


def run_case(ctx, env, prog, k, rw, flags, blocks, use_default):
    import fx_cfg
    env.n += 1
    db = os.path.join(env.sc.dir, f"db{env.n}.sqlite3")
    spec = ["E2E", prog, k, rw, flags, blocks, use_default]
    if use_default:
        k, rw = 0, "default"
        os.environ["MT_DB_PATH"] = db
        cfg = DefaultConfig()
        cfg_arg = "monkeytype.config:DefaultConfig()"
    else:
        os.environ.update(MTV_DB=db, MTV_K=str(k), MTV_RW=rw)
        os.environ.pop("MTV_RATE", None)
        cfg = fx_cfg.CONFIG
        cfg_arg = "fx_cfg:CONFIG"
    def tracer_cm():
        # the generated file's path is only known once the module exists; the filter reads MTV_ONLY lazily
        return monkeytype.trace(cfg)

    os.environ["MTV_ONLY"] = "<pending>"
    res = tracerun.run_program(prog, env.sc, k=k, typer=snapshot, keep_module=True, tracer_cm=tracer_cm, blocks=blocks,
                               on_module=lambda path: os.environ.__setitem__("MTV_ONLY", path))
    try:
        if res.driver_error is not None:
            raise core.HarnessError(f"driver error {res.driver_error!r}\n{res.src}")
        R = res.R
        # observed values per (function qualname, position)
        obs = collections.defaultdict(list)
        flav = {}
        for c in R.calls.values():
            if c["bad_call"] is not None or c["state"] != "done" or c["killed_at_yield"]:
                continue
            qn = c["fn"].__qualname__
            if "<locals>" in qn:
                continue  # locally defined functions cannot be decoded from the store (C10); never in the stub
            flav[qn] = c["kind"]
            for n, v in c["args"].items():
                obs[(qn, n)].append(v)
            if c["outcome"] == "return":
                obs[(qn, "return")].append(c["ret"])
            for y in c["yields"]:
                obs[(qn, "yield")].append(y)
        shapes = [len({vals_shape(v) for v in vs}) for vs in obs.values()]
        nt = any(n >= 2 for n in shapes) or any(isinstance(v, (list, dict, set, tuple)) for vs in obs.values() for v in vs)
        ctx.case(spec, nt, ["rewriter:" + rw, "k=%d" % k, "flags:" + (flags[0] if flags else "none"), "blocks=%d" % blocks] + (["unmodified-DefaultConfig"] if use_default else []))
        if not obs:
            return
        glob = [f for f in flags if f == "--disable-type-rewriting"]
        loc = [f for f in flags if f != "--disable-type-rewriting"]

        def stub_text(extra_global):
            out, err = io.StringIO(), io.StringIO()
            rc = cli.main(["-c", cfg_arg] + glob + extra_global + ["stub"] + loc + [res.name], out, err)
            return rc, out.getvalue(), err.getvalue()

        try:
            rc, text, err = stub_text([])
        except Exception as e:
            return ctx.fail(f"C01/stub-command-raises:{type(e).__name__}", spec, f"{e!r}\n{res.src}")
        if rc != 0 or not text.strip():
            return ctx.fail("C01/no-stub-for-traced-module", spec, f"rc={rc} stderr={err[:400]}\n{res.src}")
        tns = {n: v for n, v in vars(res.module).items() if not n.startswith("__")}
        strict = stubread.read_stub(text, tns)
        if strict["syntax_error"] is not None:
            ctx.label("skipped:stub-unparsable(C12)")
            return
        lenient_ns = dict(vars(typing))
        import fxh
        import mtv_support
        lenient_ns.update(fxh=fxh, mtv_support=mtv_support)
        lenient_ns.update(tns)
        lenient_ns[res.name] = res.module
        lenient = stubread.read_stub(text, lenient_ns)
        if strict["unresolved"] or strict["dupes"]:
            body_only = all(u[0] == "typeddict-class-body" for u in strict["unresolved"])
            if strict["dupes"]:
                ctx.fail("C01/generated-typeddict-class-names-collide", spec, f"{strict['dupes']}\n{text[:800]}")
                return
            if body_only:
                ctx.fail("C01/name-in-generated-typeddict-class-body-not-provided", spec, f"{sorted({u[1] for u in strict['unresolved']})}\n{text[:800]}")
            else:
                return ctx.fail("C01/annotation-uses-name-the-stub-does-not-provide", spec, f"{sorted({u[1] for u in strict['unresolved']})}\n{text[:1200]}")
        for (qn, pos), values in obs.items():
            path = tuple(qn.split(".")[:-1])
            infos = lenient["funcs"].get((path, qn.split(".")[-1]))
            if not infos:
                return ctx.fail("C01/traced-function-missing-from-stub", spec, f"{qn}\n{text[:800]}\n{res.src}")
            info = infos[0]
            if pos in ("return", "yield"):
                entry = info["returns"]
            else:
                entry = info["args"].get(pos)
            if entry is None:
                ctx.label("position-without-annotation")
                continue
            src, T = entry
            if flav.get(qn) == "gen" and pos in ("return", "yield"):
                if T is object:
                    continue
                o = typing.get_origin(T)
                if o not in (collections.abc.Iterator, collections.abc.Generator):
                    # a generator function that never yielded is annotated with its plain return type
                    if pos == "yield":
                        return ctx.fail("C01/yielded-values-but-annotation-is-not-an-iterator", spec, f"{qn}: {src}\n{text[:600]}")
                else:
                    a = typing.get_args(T)
                    T = a[0] if pos == "yield" else (a[2] if o is collections.abc.Generator else type(None))
            ctx.label("positions-checked")
            for v in values:
                try:
                    ok = stub_member(v, T, lenient)
                except stubread.StubError as e:
                    if e.kind == "typeddict-class-body-does-not-evaluate":
                        ctx.fail("C01/name-in-generated-typeddict-class-body-not-provided", spec, f"{qn} {pos}: {e}")
                        ok = True
                        break
                    return ctx.fail(f"C01/{e.kind}", spec, f"{qn} {pos}: `{src}`: {e}\n{text[:800]}")
                if not ok:
                    who = "none" if glob else rw
                    if not glob:
                        try:
                            rc2, text2, _ = stub_text(["--disable-type-rewriting"])
                            l2 = stubread.read_stub(text2, lenient_ns)
                            e2 = l2["funcs"].get((path, qn.split(".")[-1]))
                            ent2 = (e2[0]["returns"] if pos in ("return", "yield") else e2[0]["args"].get(pos)) if e2 else None
                            T2 = ent2[1] if ent2 else None
                            if T2 is not None and flav.get(qn) == "gen" and pos in ("return", "yield"):
                                a2 = typing.get_args(T2)
                                T2 = a2[0] if pos == "yield" else (a2[2] if len(a2) == 3 else type(None))
                            blame = "rewriter" if T2 is not None and stub_member(v, T2, l2) else "inference-or-store"
                        except Exception:
                            blame = "unknown"
                    else:
                        blame = "inference-or-store"
                    rej = oracle.first_rejected(v, T) if not isinstance(T, (str, typing.ForwardRef)) else None
                    return ctx.fail(f"C01/value-not-admitted:{blame}", spec,
                                    f"{qn} {pos}: observed {v!r} is not a member of `{src}` (k={k}, rewriter={who}, flags={flags}); innermost: {rej[:2] if rej else None}\n{text[:900]}\n{res.src}")
    finally:
        for cid, g in res.left:
            try:
                g.close()
            except BaseException:
                pass
        env.sc.drop(res.name, res.path)
        if os.path.exists(db):
            os.unlink(db)


_rec = st.lists(st.tuples(st.sampled_from(["a", "b", "c"]), st.sampled_from([["lit", 0], ["lit", "x"], ["lit", None], ["list", []], ["inst", "D1"]])).map(
    lambda kv: [["lit", kv[0]], kv[1]]), max_size=3, unique_by=lambda kv: kv[0][1]).map(lambda l: ["dict", l])
VALUES = st.one_of(vals.values(2), vals.values(1), _rec, st.lists(_rec, max_size=3).map(lambda l: ["list", l]), st.lists(_rec, max_size=3).map(lambda l: ["list", l]),
                   # records inside every other container kind, the standard-library ones included
                   st.tuples(st.sampled_from(["deque", "tuple", "set-of-tuples", "odict", "ddict", "dictval"]), st.lists(_rec, min_size=1, max_size=2)).map(
                       lambda p: {"deque": ["deque", p[1]], "tuple": ["tuple", p[1]], "set-of-tuples": ["list", [["tuple", p[1]]]],
                                  "odict": ["odict", [[["lit", "a"], p[1][0]]]], "ddict": ["ddict", [[["lit", 0], p[1][0]]]],
                                  "dictval": ["dict", [[["lit", 1], p[1][0]]]]}[p[0]]),
                   st.sampled_from([["lit", True], ["lit", False], ["lit", 0], ["lit", 1]]),
                   st.sampled_from([["list", []], ["dict", []], ["set", []], ["lit", None], ["tuple", []], ["inst", "D1"], ["inst", "D2"], ["inst", "Base"]]))


_FLIP = {True: False, False: True}


def _flip(spec):
    if spec[0] == "lit":
        v = spec[1]
        if isinstance(v, bool):
            return ["lit", not v]
        if isinstance(v, int):
            return ["lit", 0 if v else 1]
        if isinstance(v, str):
            return ["lit", "" if v else "a"]
        return spec
    if spec[0] in ("list", "tuple"):
        return [spec[0], [_flip(e) for e in spec[1]]]
    return spec


def vals_shape(v):
    return type(v).__name__ + (str(len(v)) if isinstance(v, (list, dict, set, tuple)) and len(v) < 2 else "")


@st.composite
def programs(draw, q):
    prog = draw(synth.program(max_funcs=4 if q else 6, max_ops=12, valstrat=VALUES))
    for f in prog["funcs"]:
        if f["kind"] in synth.MAY:
            f["kind"] = "func"
    ops = []
    for op in prog["ops"]:
        op = op if op[0] in ("call", "next") else ["next", op[1]]  # (no close/throw/leave/drop/callkept in C01 histories)
        ops.append(op)
        if op[0] == "call" and draw(st.booleans()):
            # a sibling call: same function, same argument types, other values (True<->False, 0<->1, 'a'<->'')
            ops.append(["call", op[1], [_flip(v) for v in op[2]]])
    if draw(st.integers(0, 2)) == 0:
        # a function whose yield / return TYPE depends on the VALUE of its argument, called with both values:
        # rows that differ in the yield or return column only
        i = len(prog["funcs"])
        flavour = draw(st.sampled_from(["gen", "gen", "plain"]))
        prog["funcs"].append({"idx": i, "kind": draw(st.sampled_from(["func", "method", "classmethod"])),
                              "params": {"ps": [{"kind": "poskw", "default": None, "name": "p%dx0" % i}], "varargs": False, "varkw": False},
                              "anno": False, "flavour": flavour, "rebind": "no", "callee": None, "callee_args": [], "catch": False, "recurse": False,
                              "exit": draw(st.sampled_from(["const", "cond", "condnone", "condnone"])) if flavour == "gen" else draw(st.sampled_from(["cond", "condnone"])),
                              "yields": ["@cond"] if flavour == "gen" else [], "awaits": 0})
        a, b = draw(st.sampled_from([(True, False), (1, 0), ("a", "")]))
        extra = [["call", i, [["lit", a]]], ["next", 0], ["next", 0], ["call", i, [["lit", b]]], ["next", 0], ["next", 0]]
        at = draw(st.integers(0, len(ops)))
        ops = ops[:at] + extra + ops[at:]
    if draw(st.integers(0, 3)) == 0:
        # one position observed with many tuple shapes of two element types (union size limits of the default chain)
        i = len(prog["funcs"])
        prog["funcs"].append({"idx": i, "kind": "func", "params": {"ps": [{"kind": "poskw", "default": None, "name": "p%dx0" % i}], "varargs": False, "varkw": False},
                              "anno": False, "flavour": "plain", "rebind": "no", "callee": None, "callee_args": [], "catch": False, "recurse": False,
                              "exit": "param", "yields": [], "awaits": 0})
        shapes = draw(st.lists(st.tuples(st.sampled_from([["lit", 1], ["lit", "s"], ["lit", 1.5]]), st.integers(1, 6)), min_size=6, max_size=9, unique_by=repr))
        ops = ops + [["call", i, [["tuple", [e] * n]]] for e, n in shapes]
    prog["ops"] = ops
    prog["drain"] = True
    prog["repeat"] = 1
    prog["warmup"] = False
    return prog


def shard(ctx):
    q = ctx.tier == "quick"
    env = Env()
    try:
        def factory(ctx):
            @given(programs(q), st.sampled_from([0, 1, 2, 3, 10]), st.sampled_from(RWS), st.sampled_from(FLAGS), st.integers(1, 3), st.sampled_from([False] * 4 + [True]))
            def test(prog, k, rw, flags, blocks, use_default):
                run_case(ctx, env, prog, k, rw, flags, blocks, use_default)
            return test
        core.run_hypothesis(ctx, factory, 150 if q else 1200)
    finally:
        env.close()


def run(ctx):
    core.run_sharded(ctx, __name__, "shard", 8 if ctx.tier == "quick" else 16)


def replay(ctx, case):
    env = Env()
    try:
        run_case(ctx, env, case[1], case[2], case[3], case[4], case[5], case[6])
    finally:
        env.close()
