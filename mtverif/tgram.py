"""Type grammar T: JSON-able specs -> typing objects MonkeyType can emit; strategy + exhaustive enumeration."""
import itertools
import typing
from typing import Any, Callable, DefaultDict, Dict, Generator, Iterator, List, Optional, Set, Tuple, Type, Union

from hypothesis import strategies as st

import fxh
from monkeytype.typing import make_typed_dict  # the only constructor of anonymous TypedDicts (public helper)

NoneType = type(None)
ATOMS = {"int": int, "str": str, "bool": bool, "float": float, "None": NoneType, "bytes": bytes}
CLASSES = {c.__qualname__: c for c in fxh.CLASSES}
CLASSES.update({"MyList": fxh.MyList, "MyDict": fxh.MyDict, "NT": fxh.NT})


def build(s):
    k = s[0]
    if k == "atom":
        return ATOMS[s[1]]
    if k == "cls":
        return CLASSES[s[1]]
    if k == "Any":
        return Any
    if k == "List":
        return List[build(s[1])]
    if k == "Set":
        return Set[build(s[1])]
    if k == "Dict":
        return Dict[build(s[1]), build(s[2])]
    if k == "DefaultDict":
        return DefaultDict[build(s[1]), build(s[2])]
    if k == "Tuple":
        return Tuple[tuple(build(e) for e in s[1])] if s[1] else Tuple[()]
    if k == "TupleEllipsis":
        return Tuple[build(s[1]), ...]
    if k == "Type":
        return Type[CLASSES.get(s[1]) or ATOMS[s[1]]]
    if k == "Callable":
        return Callable
    if k == "Iterator":
        return Iterator[build(s[1])]
    if k == "Generator":
        return Generator[build(s[1]), build(s[2]), build(s[3])]
    if k == "Union":
        return Union[tuple(build(e) for e in s[1])]
    if k == "TD":
        return make_typed_dict(
            required_fields={n: build(t) for n, t in s[1]}, optional_fields={n: build(t) for n, t in s[2]}
        )
    raise ValueError(s)


def children(s):
    k = s[0]
    if k in ("List", "Set", "Iterator", "TupleEllipsis"):
        return [s[1]]
    if k in ("Dict", "DefaultDict"):
        return [s[1], s[2]]
    if k == "Generator":
        return [s[1], s[2], s[3]]
    if k in ("Tuple", "Union"):
        return list(s[1])
    if k == "TD":
        return [t for _, t in s[1]] + [t for _, t in s[2]]
    return []


def has(s, kind):
    return s[0] == kind or any(has(c, kind) for c in children(s))


def depth(s):
    return (0 if s[0] in ("atom", "cls", "Any", "Callable") else 1) + max([depth(c) for c in children(s)] or [0])


# ---- Hypothesis strategy ----------------------------------------------------------------------
atom_specs = [["atom", a] for a in ATOMS] + [["cls", c] for c in CLASSES]
leaf = st.one_of(
    st.sampled_from(atom_specs),
    st.sampled_from([["Callable"], ["Iterator", ["Any"]], ["Tuple", []], ["Type", "Base"], ["Type", "D1"], ["Type", "int"],
                     ["List", ["Any"]], ["Set", ["Any"]], ["Dict", ["Any"], ["Any"]], ["DefaultDict", ["Any"], ["Any"]]]),
)
key_types = st.sampled_from([["atom", "str"], ["atom", "int"], ["cls", "Base"], ["Union", [["atom", "int"], ["atom", "str"]]], ["Tuple", [["atom", "int"]]]])
FIELD_NAMES = ["a", "b", "c", "d"]


def _extend(sub):
    def union(lo, hi):
        return st.lists(sub, min_size=lo, max_size=hi, unique_by=repr).map(lambda l: ["Union", l])

    td = st.tuples(
        st.lists(st.tuples(st.sampled_from(FIELD_NAMES), sub).map(list), max_size=3, unique_by=lambda f: f[0]),
        st.lists(st.tuples(st.sampled_from(["x", "y"]), sub).map(list), max_size=2, unique_by=lambda f: f[0]),
    ).filter(lambda p: p[0] or p[1]).map(lambda p: ["TD", p[0], p[1]])
    return st.one_of(
        sub.map(lambda t: ["List", t]),
        sub.map(lambda t: ["Set", t]),
        st.tuples(key_types, sub).map(lambda p: ["Dict", p[0], p[1]]),
        st.tuples(key_types, sub).map(lambda p: ["DefaultDict", p[0], p[1]]),
        st.lists(sub, min_size=1, max_size=3).map(lambda l: ["Tuple", l]),
        st.tuples(sub, st.integers(1, 3)).map(lambda p: ["Tuple", [p[0]] * p[1]]),
        st.tuples(sub, st.sampled_from([["atom", "None"]]), st.sampled_from([["atom", "None"], ["atom", "int"], ["atom", "str"]])).map(
            lambda p: ["Generator", p[0], p[1], p[2]]),
        union(2, 4),
        union(5, 8),
        st.tuples(sub, st.just(["atom", "None"])).map(lambda p: ["Union", list(p)]),
        td,
    )


def types(max_leaves=12):
    return st.recursive(leaf, _extend, max_leaves=max_leaves)


def tuple_unions():
    """Unions of same-element tuples of different arity (the Tuple[V, ...] path of RewriteLargeUnion)."""
    return st.tuples(st.sampled_from([["atom", "int"], ["atom", "str"], ["cls", "D1"]]),
                     st.lists(st.integers(0, 7), min_size=2, max_size=8, unique=True)).map(
        lambda p: ["Union", [["Tuple", [p[0]] * n] for n in p[1]]])


def mixed_tuple_unions():
    """homogeneous tuples of several arities over TWO element types (must not collapse to Tuple[V, ...])"""
    el = st.sampled_from([["atom", "int"], ["atom", "str"], ["cls", "D1"], ["atom", "None"]])
    return st.lists(st.tuples(el, st.integers(1, 6)).map(lambda p: ["Tuple", [p[0]] * p[1]]), min_size=3, max_size=9, unique_by=repr).map(
        lambda l: ["Union", l])


def container_class_unions():
    """Union[C[Union[classes]], C[base]]: members that become equal once an inner union collapses to its base"""
    cls = st.sampled_from([["cls", c] for c in ("D1", "D2", "DD", "Base", "Mixed")])
    inner = st.lists(cls, min_size=2, max_size=3, unique_by=repr).map(lambda l: ["Union", l])
    wrap = st.sampled_from(["List", "Set", "Iterator"])
    return st.tuples(wrap, inner, st.sampled_from([["cls", "Base"], ["cls", "D1"]]), st.booleans()).map(
        lambda p: ["Union", [[p[0], p[1]], [p[0], p[2]]] + ([["atom", "None"]] if p[3] else [])])


def class_unions():
    return st.lists(st.sampled_from([["cls", c] for c in CLASSES] + [["atom", "int"], ["atom", "bool"], ["atom", "None"]]),
                    min_size=2, max_size=8, unique_by=repr).map(lambda l: ["Union", l])


def dict_unions():
    # (key types also in a subclass relation: bool/int, D1/Base - different key types all the same)
    d = st.tuples(st.sampled_from([["atom", "str"], ["atom", "int"], ["Any"], ["atom", "bool"], ["atom", "int"], ["cls", "D1"], ["cls", "Base"]]), st.sampled_from(atom_specs[:4] + [["Any"], ["List", ["atom", "int"]]])).map(
        lambda p: ["Dict", p[0], p[1]])
    return st.lists(d, min_size=2, max_size=4, unique_by=repr).map(lambda l: ["Union", l])


def nested_union_containers():
    """Union[C[<inner union>], C[<sibling>]]: a kept outer union whose members hold unions of their own - large ones of
    unrelated atoms (what one rewriter turns into Any another may take for an empty container), or unions of same-key dicts
    (members that become equal once the inner union is merged)"""
    atoms_ = [["atom", "int"], ["atom", "str"], ["atom", "float"], ["atom", "bytes"], ["atom", "bool"], ["cls", "D1"], ["atom", "None"]]
    big = st.lists(st.sampled_from(atoms_), min_size=3, max_size=7, unique_by=repr).map(lambda l: ["Union", l])
    dicts = st.lists(st.sampled_from([["Dict", ["atom", "str"], ["atom", "int"]], ["Dict", ["atom", "str"], ["atom", "str"]], ["Dict", ["atom", "str"], ["atom", "float"]]]),
                     min_size=2, max_size=3, unique_by=repr)
    inner = st.one_of(big, dicts.map(lambda l: ["Union", l]))
    merged = dicts.map(lambda l: ["Dict", ["atom", "str"], ["Union", [d[2] for d in l]]])
    sibling = st.one_of(st.sampled_from([["atom", "int"], ["atom", "str"], ["Any"]]), merged)

    def wrap(kind, t):
        return {"List": ["List", t], "Set": ["Set", t], "Tuple": ["Tuple", [t]], "DictVal": ["Dict", ["atom", "str"], t], "Iterator": ["Iterator", t]}[kind]

    return st.tuples(st.sampled_from(["List", "List", "Set", "Tuple", "DictVal", "Iterator"]), inner, sibling, st.booleans()).map(
        lambda p: ["Union", [wrap(p[0], p[1]), wrap(p[0], p[2])] + ([["atom", "None"]] if p[3] else [])])


def focused():
    return st.one_of(tuple_unions(), mixed_tuple_unions(), class_unions(), container_class_unions(), dict_unions(), nested_union_containers())


# ---- exhaustive enumeration -------------------------------------------------------------------
E_ATOMS = [["atom", "int"], ["atom", "str"], ["atom", "None"], ["cls", "D1"], ["cls", "D2"], ["cls", "Mixed"]]


def level1():
    out = []
    el = E_ATOMS[:5] + [["Any"]]
    for a in el:
        out.append(["List", a])
        out.append(["Set", a])
    for k in (["atom", "str"], ["atom", "int"]):
        for v in E_ATOMS[:4] + [["Any"]]:
            out.append(["Dict", k, v])
    out.append(["Dict", ["Any"], ["Any"]])
    out += [["DefaultDict", ["atom", "str"], ["atom", "int"]], ["DefaultDict", ["Any"], ["Any"]]]
    out += [["Tuple", []], ["Tuple", [["atom", "int"]]], ["Tuple", [["atom", "int"], ["atom", "int"]]], ["Tuple", [["atom", "int"], ["atom", "str"]]]]
    out += [["Type", "D1"], ["Callable"], ["Iterator", ["Any"]],
            ["Generator", ["atom", "int"], ["atom", "None"], ["atom", "None"]], ["Generator", ["atom", "int"], ["atom", "None"], ["atom", "int"]]]
    out += [["TD", [["a", ["atom", "int"]]], []], ["TD", [["a", ["atom", "int"]]], [["b", ["atom", "str"]]]]]
    return out


def enumeration():
    """Atoms, level-1 generics, all unions of 2..3 members over them, a few big unions, and wrappers of unions."""
    members = E_ATOMS + level1()
    for m in members:
        yield m
    unions2 = [["Union", list(c)] for c in itertools.combinations(members, 2)]
    for u in unions2:
        yield u
    for c in itertools.combinations(members, 3):
        yield ["Union", list(c)]
    small = E_ATOMS + [["List", ["atom", "int"]], ["Tuple", []], ["cls", "Base"]]
    for n in (6, 7):
        for c in itertools.combinations(small, n):
            yield ["Union", list(c)]
    for u in unions2:
        yield ["List", u]
        yield ["Dict", ["atom", "str"], u]
        yield ["Tuple", [u, ["atom", "int"]]]
        yield ["Union", [["List", u], ["atom", "None"]]]
