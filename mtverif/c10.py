"""C10 - stale or undecodable stored traces are skipped, never fatal."""
import datetime
import importlib
import io
import itertools
import json
import os
import shutil
import sqlite3
import sys
import tempfile

from hypothesis import given, strategies as st

from monkeytype import cli
from monkeytype.db.sqlite import SQLiteStore

from . import core

LEVEL = "exploration"
RULE = ("stores populated directly with rows of a generated fixture package: 0..6 valid rows (5 functions incl. a method, a "
        "function in a module three packages deep, a generator) interleaved at drawn positions and calendar days with 0..6 stale "
        "rows of 34 kinds (module / submodule / middle package removed, function removed, function now an int / a class / a "
        "settable property, local-scope qualname, argument / return / yield class removed, class's module or middle package "
        "removed, name now bound to a non-type, malformed generic); every single kind and every pair of kinds exhaustively around "
        "a fixed base; commands stub, stub --diff and apply, with and without -v, with and without a :qualname filter. Oracle: differential "
        "against the same command on the valid rows alone + exact failure count on stderr. Non-trivial: >=1 valid and >=1 stale "
        "row selected together; distinct by digest of (rows, command).")
ASSUMPTIONS = ["a row whose only staleness is a vanished parameter name is valid (it decodes; the stub ignores the name)",
               "rows are read back through the shipped SQLiteStore (distinct rows)"]

MOD_SRC = '''
class Cls:
    pass


class NowClass:
    pass


now_int = 3
now_dict = {'was': 'a class'}
NowNone = None
now_list = [1]


def f(a, b=None):
    return a


def g(x):
    return x


def gen(n):
    yield n


def outer():
    def inner(q):
        return q
    return inner


class K:
    def m(self, a):
        return a

    @property
    def setprop(self):
        return 1

    @setprop.setter
    def setprop(self, v):
        pass
'''
DEEP_SRC = '''
def deepf(a):
    return a


class DeepCls:
    pass
'''


def T(module, qualname, elems=None):
    d = {"module": module, "qualname": qualname}
    if elems is not None:
        d["elem_types"] = elems
    return d


INT, STR, NONE = T("builtins", "int"), T("builtins", "str"), T("builtins", "NoneType")


class Fixture:
    def __init__(self):
        self.dir = tempfile.mkdtemp(prefix="c10-")
        self.pkg = "fxs%d" % os.getpid()
        p = os.path.join(self.dir, self.pkg)
        os.makedirs(os.path.join(p, "sub", "deeper"))
        for d in ("", "sub", "sub/deeper"):
            open(os.path.join(p, d, "__init__.py"), "w").write("")
        self.mod_path = os.path.join(p, "mod.py")
        open(self.mod_path, "w").write(MOD_SRC)
        open(os.path.join(p, "sub", "deeper", "deep.py"), "w").write(DEEP_SRC)
        sys.path.insert(0, self.dir)
        importlib.invalidate_caches()
        importlib.import_module(self.pkg + ".mod")
        importlib.import_module(self.pkg + ".sub.deeper.deep")
        self.db = os.path.join(self.dir, "t.sqlite3")
        self.n = 0

    def close(self):
        if self.dir in sys.path:
            sys.path.remove(self.dir)
        for k in [k for k in sys.modules if k == self.pkg or k.startswith(self.pkg + ".")]:
            del sys.modules[k]
        shutil.rmtree(self.dir, ignore_errors=True)

    # rows: (module, qualname, arg_types json, return json, yield json)
    def valid_rows(self):
        M = self.pkg + ".mod"
        C = T(M, "Cls")
        return [
            (M, "f", {"a": INT, "b": NONE}, INT, None),
            (M, "f", {"a": STR, "b": C}, STR, None),
            (M, "g", {"x": T("typing", "List", [C])}, T("typing", "List", [C]), None),
            (M, "K.m", {"self": T(M, "K"), "a": INT}, INT, None),
            (M, "gen", {"n": INT}, None, INT),
            (M, "f", {"a": INT, "zzz_gone_param": STR}, INT, None),  # vanished parameter name: still valid
            # ... one that sorts BEFORE the surviving names in the stored row, whose other types no other row supplies
            (M, "K.m", {"_gone_param": STR, "a": T("builtins", "float"), "self": T(M, "K")}, T("builtins", "bytes"), None),
            # two distinct rows that decode to EQUAL traces (the same call recorded with the union members in another order)
            (M, "gen", {"n": INT}, None, T("typing", "Union", [INT, STR])),
            (M, "gen", {"n": INT}, None, T("typing", "Union", [STR, INT])),
        ]

    def stale_rows(self):
        M = self.pkg + ".mod"
        P = self.pkg
        gone_cls = T(M, "GoneCls")
        return {
            "function-removed": (M, "nosuch", {"a": INT}, INT, None),
            "method-removed": (M, "K.nosuch", {"a": INT}, INT, None),
            "function-now-int": (M, "now_int", {}, INT, None),
            "function-now-class": (M, "NowClass", {}, INT, None),
            "function-now-settable-property": (M, "K.setprop", {"self": T(M, "K")}, INT, None),
            "function-in-local-scope": (M, "outer.<locals>.inner", {"q": INT}, INT, None),
            "arg-class-removed": (M, "f", {"a": gone_cls, "b": NONE}, INT, None),
            "return-class-removed": (M, "f", {"a": INT, "b": NONE}, gone_cls, None),
            "yield-class-removed": (M, "gen", {"n": INT}, None, gone_cls),
            "nested-arg-class-removed": (M, "g", {"x": T("typing", "List", [T("typing", "Dict", [STR, gone_cls])])}, INT, None),
            "class-module-removed": (M, "f", {"a": T("fx_gone_module_xyz", "C"), "b": NONE}, INT, None),
            "class-submodule-removed": (M, "f", {"a": T(P + ".gone", "C"), "b": NONE}, INT, None),
            "class-middle-package-removed": (M, "f", {"a": T(P + ".gone.models.deep", "C"), "b": NONE}, INT, None),
            "class-now-non-type": (M, "f", {"a": T(M, "now_int"), "b": NONE}, INT, None),
            "nested-class-now-non-type": (M, "g", {"x": T("typing", "List", [T(M, "now_int")])}, INT, None),
            # ... to a value that cannot even be hashed (a module-level list / dict that took over the name)
            "class-now-unhashable-list": (M, "f", {"a": T(M, "now_list"), "b": NONE}, INT, None),
            "nested-class-now-unhashable-dict": (M, "g", {"x": T("typing", "List", [T(M, "now_dict")])}, INT, None),
            "nested-class-now-function": (M, "f", {"a": T("typing", "Dict", [STR, T(M, "g")]), "b": NONE}, T("typing", "List", [T(M, "outer")]), None),
            "class-now-function": (M, "K.m", {"self": T(M, "K"), "a": T(M, "g")}, INT, None),
            # dotted names whose LEADING component is still there but is no longer a class (a method's class, the outer class of
            # a nested class): the walk fails on the next component
            "method-of-name-now-none": (M, "NowNone.meth", {"a": INT}, INT, None),
            "method-of-name-now-int": (M, "now_int.meth", {"a": INT}, INT, None),
            "method-of-name-now-list": (M, "now_list.meth.deeper", {"a": INT}, INT, None),
            "nested-class-of-name-now-none": (M, "f", {"a": T(M, "NowNone.Inner"), "b": NONE}, INT, None),
            "nested-class-of-function": (M, "f", {"a": INT, "b": NONE}, T(M, "g.Inner.Deeper"), None),
            # the removed class sits inside a Union / Optional next to members that still resolve: the ROW is undecodable
            "union-member-class-removed": (M, "f", {"a": T("typing", "Union", [T("builtins", "bytes"), gone_cls]), "b": NONE}, INT, None),
            "optional-of-removed-class": (M, "f", {"a": INT, "b": NONE}, T("typing", "Union", [gone_cls, NONE]), None),
            "nested-union-member-class-removed": (M, "g", {"x": T("typing", "List", [T("typing", "Union", [T("builtins", "float"), T(P + ".gone", "C")])])}, STR, None),
            # rows the tracer writes itself but that never decode: the class of the value reports `builtins` as its module
            # although builtins does not export it (a module object, a dict view, a coroutine, Ellipsis)
            "builtins-type-not-exported-module": (M, "f", {"a": T("builtins", "module"), "b": NONE}, INT, None),
            "builtins-type-not-exported-dict_keys": (M, "g", {"x": T("typing", "List", [T("builtins", "dict_keys")])}, INT, None),
            "builtins-type-not-exported-coroutine": (M, "f", {"a": INT, "b": NONE}, T("builtins", "coroutine"), None),
            "builtins-type-not-exported-ellipsis": (M, "gen", {"n": INT}, None, T("builtins", "ellipsis")),
            # two kinds of staleness in one row: a parameter that no longer exists AND whose class is gone / no longer a type
            "vanished-parameter-of-removed-class": (M, "f", {"a": STR, "zzz_gone_param": gone_cls}, T("typing", "List", [INT]), None),
            "vanished-parameter-of-non-type": (M, "g", {"zzz_gone_param": T(M, "now_int")}, STR, None),
            "vanished-parameter-of-removed-module": (M, "gen", {"zzz_gone_param": T("fx_gone_module_xyz", "C")}, None, STR),
        }

    def write_db(self, rows):
        if os.path.exists(self.db):
            os.unlink(self.db)
        SQLiteStore.make_store(self.db).conn.close()
        con = sqlite3.connect(self.db)
        for (row, day) in rows:
            m, q, a, r, y = row
            con.execute("INSERT INTO monkeytype_call_traces VALUES (?, ?, ?, ?, ?, ?)",
                        (str(datetime.datetime(2024, 1, 1 + day, 12, 0, 0)), m, q, json.dumps(a, sort_keys=True),
                         None if r is None else json.dumps(r, sort_keys=True), None if y is None else json.dumps(y, sort_keys=True)))
        con.commit()
        con.close()

    def command(self, cmd, target, verbose):
        os.environ.update(MTV_DB=self.db, MTV_K="0", MTV_RW="noop")
        open(self.mod_path, "w").write(MOD_SRC)
        out, err = io.StringIO(), io.StringIO()
        argv = ["-c", "fx_cfg:CONFIG"] + (["-v"] if verbose else []) + ([cmd, target] if cmd != "diff" else ["stub", "--diff", target])
        try:
            rc = cli.main(argv, out, err)
            exc = None
        except BaseException as e:
            if isinstance(e, (KeyboardInterrupt,)):
                raise
            rc, exc = None, e
        text = open(self.mod_path).read()
        open(self.mod_path, "w").write(MOD_SRC)
        return dict(rc=rc, exc=exc, out=out.getvalue(), err=err.getvalue(), file=text)


def run_case(ctx, fx, rowspec, cmd, verbose, qual, target_mod="mod"):
    """rowspec: list of ["v", index, day] / ["s", kind, day]"""
    V, S = fx.valid_rows(), fx.stale_rows()
    rows, valid_only = [], []
    for kind, ref, day in rowspec:
        row = V[ref % len(V)] if kind == "v" else S[ref]
        rows.append((row, day))
        if kind == "v":
            valid_only.append((row, day))
    module = fx.pkg + "." + target_mod
    target = module + (":" + qual if qual else "")
    spec = ["ROWS", rowspec, cmd, verbose, qual, target_mod]

    def selected(rs):
        return {(json.dumps(r, sort_keys=True)) for r, _ in rs if r[0] == module and (not qual or r[1].startswith(qual))}

    n_stale = len(selected(rows) - selected(valid_only))
    n_valid = len(selected(valid_only))
    ctx.case(spec, n_stale >= 1 and n_valid >= 1, [cmd, "verbose" if verbose else "quiet", "qualname-filter" if qual else "whole-module",
                                                    f"stale={min(n_stale, 3)}", f"valid={min(n_valid, 3)}"])
    fx.write_db(rows)
    got = fx.command(cmd, target, verbose)
    fx.write_db(valid_only)
    ref = fx.command(cmd, target, verbose)
    if got["exc"] is not None:
        return ctx.fail(f"C10/command-crashes:{type(got['exc']).__name__}", spec, f"`{cmd} {target}` raised {got['exc']!r} with stale rows {[r for r in rowspec if r[0] == 's']}")
    if got["rc"] != 0:
        return ctx.fail("C10/exit-status-not-success", spec, f"`{cmd} {target}` returned {got['rc']}; stderr: {got['err'][:300]}")
    if ref["exc"] is not None or ref["rc"] != 0:
        # the reference is the same command on the decodable rows alone (possibly none): it must succeed too
        return ctx.fail(f"C10/command-fails-on-decodable-rows-alone", spec, f"`{cmd} {target}` on the {n_valid} valid rows alone: {ref['exc']!r} rc={ref['rc']} {ref['err'][:300]}")
    if cmd == "stub" and not verbose and any("gone_param" in k for r, _ in valid_only for k in r[2]):
        # a parameter name that no longer exists is skipped, the rest of its row counts: the output equals that of the same rows
        # with those names taken out
        fx.write_db([((r[0], r[1], {k: v for k, v in r[2].items() if "gone_param" not in k}, r[3], r[4]), d) for r, d in valid_only])
        cleaned = fx.command(cmd, target, verbose)
        ctx.label("vanished-parameter-names-vs-cleaned-rows")
        if cleaned["exc"] is None and cleaned["rc"] == 0 and cleaned["out"] != ref["out"]:
            return ctx.fail("C10/output-differs-from-decodable-rows-alone", spec + ["vanished-parameter"],
                            f"`{cmd} {target}`: rows that name a parameter which no longer exists\n{ref['out'][:600]}\nthe same rows without those names\n{cleaned['out'][:600]}")
    if got["out"] != ref["out"] or got["file"] != ref["file"]:
        return ctx.fail("C10/output-differs-from-decodable-rows-alone", spec,
                        f"`{cmd} {target}`: with stale rows\n{got['out'][:600]}\nvalid rows alone\n{ref['out'][:600]}")
    # stderr: the lines beyond what the valid rows alone produce. The wording is not part of the property: without -v exactly
    # one extra line that states the number of skipped rows, with -v exactly one extra line per skipped row; when nothing is
    # decodable one more line that says so.
    import re
    err_lines = [l for l in got["err"].splitlines() if l.strip()]
    ref_lines = [l for l in ref["err"].splitlines() if l.strip()]
    extra = list(err_lines)
    for l in ref_lines:
        if l in extra:
            extra.remove(l)
    no_traces = [l for l in err_lines if re.search(r"no traces", l, re.I)]
    if n_valid == 0 and n_stale:
        if got["out"].strip() or not no_traces:
            return ctx.fail("C10/no-traces-message-missing", spec, f"nothing decodable, stdout={got['out'][:100]!r} stderr={got['err'][:300]!r}")
        extra = [l for l in extra if l not in no_traces]
    # `stub --diff` generates the stub twice (once per strategy): the report may come once or once per pass
    passes = (1, 2) if cmd == "diff" else (1,)
    if verbose:
        if len(extra) not in [n_stale * p for p in passes]:
            return ctx.fail("C10/skipped-traces-misreported", spec, f"-v: {len(extra)} extra stderr lines, {n_stale} stale rows selected; stderr: {got['err'][:500]}")
    else:
        ok = (not extra) if n_stale == 0 else (len(extra) in passes and all(re.search(r"(?<!\d)%d(?!\d)" % n_stale, x) is not None for x in extra))
        if not ok:
            return ctx.fail("C10/skipped-traces-misreported", spec, f"{n_stale} stale rows selected but stderr says {extra}")


def gone_module_cases(ctx, fx):
    """the function's own module / submodule / middle package was removed: nothing is decodable"""
    for mod in ("gone", "gone.models.deep", "sub.gone", "sub.deeper.gone"):
        for verbose, cmd in ((False, "stub"), (True, "stub"), (False, "apply")):
            module = fx.pkg + "." + mod
            rows = [((module, "f", {"a": INT}, INT, None), 0), ((module, "K.m", {"a": STR}, INT, None), 1)]
            fx.write_db(rows)
            spec = ["GONE", mod, verbose, cmd]
            ctx.case(spec, True, ["function-module-removed", cmd])
            got = fx.command(cmd, module, verbose)
            if got["exc"] is not None:
                ctx.fail(f"C10/command-crashes:{type(got['exc']).__name__}", spec, f"{cmd} {module}: {got['exc']!r}", raise_=False)
                continue
            import re
            lines = [l for l in got["err"].splitlines() if l.strip()]
            nt_lines = [l for l in lines if re.search(r"no traces", l, re.I)]
            rest = [l for l in lines if l not in nt_lines]
            ok_count = (len(rest) == 2) if verbose else (len(rest) == 1 and re.search(r"(?<!\d)2(?!\d)", rest[0]) is not None)
            if got["rc"] != 0 or got["out"].strip() or not ok_count or not nt_lines:
                ctx.fail("C10/no-traces-message-missing", spec, f"rc={got['rc']} out={got['out'][:80]!r} err={lines}", raise_=False)
    # valid rows in a module three packages deep next to stale ones
    deep = fx.pkg + ".sub.deeper.deep"
    rows = [((deep, "deepf", {"a": INT}, INT, None), 0), ((deep, "deepf", {"a": T(deep, "GoneCls")}, INT, None), 0),
            ((deep, "gone_fn", {"a": INT}, INT, None), 2), ((deep, "deepf", {"a": T(deep, "DeepCls")}, INT, None), 1)]
    fx.write_db(rows)
    got = fx.command("stub", deep, False)
    fx.write_db([rows[0], rows[3]])
    ref = fx.command("stub", deep, False)
    ctx.case(["DEEP"], True, ["deep-module"])
    import re
    if got["exc"] is not None or got["out"] != ref["out"] or not re.search(r"(?<!\d)2(?!\d)", got["err"]):
        ctx.fail("C10/output-differs-from-decodable-rows-alone", ["DEEP"], f"deep module: exc={got['exc']!r} out={got['out'][:300]!r} err={got['err'][:200]!r}", raise_=False)


def tables(ctx, fx):
    kinds = sorted(fx.stale_rows())
    base = [["v", 0, 0], ["v", 3, 1], ["v", 4, 2]]
    idx = 0
    for kind in kinds:
        for pos in range(4):
            for cmd, verbose, qual in (("stub", False, None), ("stub", True, None), ("apply", False, None), ("stub", False, "f"), ("stub", True, "K"), ("diff", pos % 2 == 0, "f" if pos == 3 else None)):
                idx += 1
                if idx % ctx.nshards != ctx.shard:
                    continue
                # odd positions: around the rows with a vanished parameter that sorts first and the two rows that decode to equal traces
                rs = list(base) if pos % 2 == 0 else [["v", 6, 0], ["v", 7, 1], ["v", 8, 1], ["v", 0, 2]]
                rs.insert(pos, ["s", kind, pos % 3])
                try:
                    run_case(ctx, fx, rs, cmd, verbose, qual)
                except core.Violation as v:
                    ctx.record_violation(v.signature, v.spec, v.message)
    # a :qualname filter that selects ONLY stale rows (the module also has valid ones): nothing decodable for that query
    S_ = fx.stale_rows()
    for j, kind in enumerate(kinds):
        q_ = S_[kind][1]
        if q_ in ("f", "g", "K.m", "gen") or S_[kind][0] != fx.pkg + ".mod":
            continue
        for cmd, verbose in (("diff", j % 2 == 0), ("stub", j % 2 == 1)):
            idx += 1
            if idx % ctx.nshards != ctx.shard:
                continue
            try:
                run_case(ctx, fx, [["v", 0, 0], ["s", kind, 1], ["v", 3, 1], ["s", kind, 2]], cmd, verbose, q_)
            except core.Violation as v:
                ctx.record_violation(v.signature, v.spec, v.message)
    if ctx.tier == "thorough" or True:
        for a, b in itertools.combinations(kinds, 2):
            idx += 1
            if idx % ctx.nshards != ctx.shard or (ctx.tier == "quick" and idx % 3 != ctx.seed % 3):
                continue
            rs = [["s", a, 0], ["v", 0, 0], ["v", 1, 0], ["s", b, 1], ["v", 3, 1]]
            try:
                run_case(ctx, fx, rs, "stub", False, None)
                run_case(ctx, fx, list(reversed(rs)), "apply", True, None)
            except core.Violation as v:
                ctx.record_violation(v.signature, v.spec, v.message)


def shard(ctx):
    q = ctx.tier == "quick"
    fx = Fixture()
    try:
        kinds = sorted(fx.stale_rows())
        tables(ctx, fx)
        if ctx.shard == 0:
            gone_module_cases(ctx, fx)

        def factory(ctx):
            row = st.one_of(st.tuples(st.just("v"), st.integers(0, 8), st.integers(0, 3)).map(list),
                            st.tuples(st.just("s"), st.sampled_from(kinds), st.integers(0, 3)).map(list))

            @given(st.lists(row, max_size=10), st.sampled_from(["stub", "stub", "apply", "diff"]), st.booleans(),
                   st.sampled_from([None, None, "f", "K", "K.m", "g", "nosuch"]))
            def test(rows, cmd, verbose, qual):
                run_case(ctx, fx, rows, cmd, verbose, qual)
            return test
        core.run_hypothesis(ctx, factory, 60 if q else 2000)
    finally:
        fx.close()


def run(ctx):
    core.run_sharded(ctx, __name__, "shard", 8 if ctx.tier == "quick" else 16)


def replay(ctx, case):
    fx = Fixture()
    try:
        if case[0] == "ROWS":
            run_case(ctx, fx, case[1], case[2], case[3], case[4], case[5])
        else:
            gone_module_cases(ctx, fx)
    finally:
        fx.close()
