"""Run a synthesised program under the real tracer with a ground-truth recorder; collect logs and residue."""
import contextlib
import gc
import importlib
import os
import random
import shutil
import sys
import tempfile
import types

from monkeytype.tracing import CallTrace, CallTraceLogger, trace_calls
from monkeytype.typing import get_type

import mtv_support as S

from . import core, synth, vals


class Logger(CallTraceLogger):
    def __init__(self, R):
        self.R = R
        self.flushed = 0

    def log(self, trace):
        # a streaming logger: what it needs of the trace is copied, the function object itself is not retained
        lite = CallTrace(S.FuncInfo(trace.func), dict(trace.arg_types), trace.return_type, trace.yield_type)
        self.R.logs.append((self.R.stack[-1] if self.R.stack else None, lite))

    def flush(self):
        self.flushed += 1


class Scratch:
    """a per-run directory on sys.path for generated modules"""

    def __init__(self, prefix="mtv-"):
        self.dir = tempfile.mkdtemp(prefix=prefix)
        sys.path.insert(0, self.dir)
        self.n = 0
        self.tag = "%d" % os.getpid()

    def new_module(self, src, stem="mtv_p"):
        self.n += 1
        name = f"{stem}{self.tag}_{self.n}"
        path = os.path.join(self.dir, name + ".py")
        with open(path, "w") as f:
            f.write(src)
        importlib.invalidate_caches()
        return name, path

    def drop(self, name, path):
        sys.modules.pop(name, None)
        try:
            os.unlink(path)
        except OSError:
            pass

    def close(self):
        if self.dir in sys.path:
            sys.path.remove(self.dir)
        shutil.rmtree(self.dir, ignore_errors=True)


class Result:
    pass


def residue(tracer, skip):
    """CallTrace objects and frames reachable from the tracer (depth<=4), not through the harness logger and
    not through functions/classes/modules/code (which lead to the whole program)."""
    found_traces, found_frames = [], []
    seen = {id(tracer)}
    frontier = [tracer]
    for depth in range(4):
        nxt = []
        for o in frontier:
            for r in gc.get_referents(o):
                if id(r) in seen or r is skip:
                    continue
                seen.add(id(r))
                if isinstance(r, CallTrace):
                    found_traces.append(r)
                    continue
                if isinstance(r, types.FrameType):
                    found_frames.append(r)
                    continue
                if isinstance(r, (types.FunctionType, types.ModuleType, type, types.CodeType, types.MethodType,
                                  types.BuiltinFunctionType, str, int, float, bytes, bool, type(None))):
                    continue
                nxt.append(r)
        frontier = nxt
    return found_traces, found_frames


def run_program(prog, scratch, k=0, sample_rate=None, rng_seed=None, accept=None, typer="k", keep_module=False, trace=True,
                tracer_cm=None, blocks=1, on_module=None):
    """tracer_cm: optional factory of the tracing context (e.g. lambda: monkeytype.trace(config)); blocks: the schedule is
    split into that many consecutive tracing blocks, live generators are drained at the end of each."""
    """accept: optional predicate(function index or None, code) restricting the filter (C17)."""
    src = synth.render(prog)
    try:
        compile(src, "<gen>", "exec")
    except SyntaxError as e:
        raise core.HarnessError(f"synthesiser produced invalid source: {e}\n{src}")
    name, path = scratch.new_module(src)
    def _type_of(v):
        # "the type of this value" for the ground truth; if type inference itself raises (C04's business) the value gets a
        # marker type that no logged trace can match, so the run ends in a violation here rather than in a harness error
        try:
            return get_type(v, k)
        except Exception as e:
            return type("TypeInferenceRaised_" + type(e).__name__, (), {})

    R = S.Rec(typer=_type_of if typer == "k" else typer)
    S.R = R
    res = Result()
    res.src, res.R, res.name, res.path = src, R, name, path
    try:
        mod = importlib.import_module(name)
    except Exception as e:
        scratch.drop(name, path)
        raise core.HarnessError(f"generated module does not import: {e!r}\n{src}")
    funcs = prog["funcs"]
    if on_module:
        on_module(path)

    def flt(code):
        if code.co_filename != path or code.co_name.startswith("_mtv_") or code.co_name == "<module>":
            return False
        return accept(code) if accept else True

    lg = Logger(R)
    live, left = [], []
    if prog.get("warmup"):
        # untraced warm-up: functions that define a closure run once before tracing starts, so that closures created
        # outside the traced session exist and can be called first (function lookup then has only caller locals to go by)
        tmp = S.Rec(typer=None)
        S.R = tmp
        try:
            for f in funcs:
                if f["kind"] in ("nested", "closure") and f["flavour"] == "plain":
                    try:
                        getattr(mod, "_mtv_call_%d" % f["idx"])(*synth.distribute(f, []))
                    except BaseException:
                        pass
        finally:
            S.R = R
        R.kept.extend(tmp.kept)
    if rng_seed is not None:
        random.seed(rng_seed)
    res.driver_error = None
    all_ops = prog["ops"] * prog.get("repeat", 1)
    nblk = max(1, min(blocks, len(all_ops)))
    chunks = [all_ops[i * len(all_ops) // nblk:(i + 1) * len(all_ops) // nblk] for i in range(nblk)]
    tracer = None
    try:
      for bi, chunk in enumerate(chunks):
        cm = tracer_cm() if tracer_cm else (trace_calls(lg, k, flt, sample_rate) if trace else contextlib.nullcontext())
        with cm:
            tracer = sys.getprofile()
            for op in chunk:
                if op[0] == "call":
                    f = funcs[op[1] % len(funcs)]
                    values = [vals.build(s) for s in op[2]]
                    a, kw = synth.distribute(f, values)
                    R.fuel_left = prog.get("fuel", 0)
                    inv = getattr(mod, "_mtv_call_%d" % f["idx"])
                    if f["flavour"] == "plain":
                        try:
                            inv(a, kw)
                        except BaseException as e:
                            if isinstance(e, (KeyboardInterrupt, SystemExit)):
                                raise
                    else:
                        n0 = R.n
                        try:
                            cid, g = inv(a, kw)
                            live.append((cid, g))
                        except TypeError:
                            if R.n > n0:
                                R.calls[R.n]["state"] = "never-started"
                elif op[0] == "callkept":
                    if R.kept:
                        fn = R.kept[op[1] % len(R.kept)]
                        cid = R.pre(fn, ([op[1]],), {})
                        R.calls[cid]["may"] = True  # resolvable only through the locals of caller frames
                        try:
                            r = fn([op[1]])
                        except BaseException as e:
                            R.exc(cid, e)
                        else:
                            R.post(cid, r)
                elif live:
                    cid, g = live[op[1] % len(live)]
                    if op[0] == "leave":
                        left.append((cid, g))
                        live.remove((cid, g))
                        continue
                    if op[0] == "drop":
                        live.remove((cid, g))
                        holder = [g]
                        del g
                        R.drop(cid, holder)
                        continue
                    status, _ = R.step(cid, g, op[0])
                    if status != "suspended":
                        live.remove((cid, g))
            if prog.get("drain", True) or bi < nblk - 1:
                for cid, g in live:
                    for _ in range(12):
                        status, _ = R.step(cid, g, "next")
                        if status != "suspended":
                            break
                    else:
                        left.append((cid, g))
                live = []
            else:
                left += live
    except BaseException as e:
        if isinstance(e, (KeyboardInterrupt, SystemExit)):
            raise
        res.driver_error = e
    res.left = left
    res.left_frame_ids = {id(getattr(g, 'gi_frame', None) or getattr(g, 'cr_frame', None)) for _, g in left}
    res.logger = lg
    res.tracer = tracer
    res.residue = residue(tracer, lg) if trace else ([], [])
    res.module = mod
    res.profile_after = sys.getprofile()
    if not keep_module:
        for cid, g in left:
            try:
                g.close()
            except BaseException:
                pass
        scratch.drop(name, path)
    return res
