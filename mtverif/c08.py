"""C08 - types and call traces survive serialisation unchanged."""
import json
import os
import shutil
import sqlite3
import subprocess
import sys
import tempfile
import typing
from typing import Any, Union

from hypothesis import given, strategies as st

import monkeytype.typing as mt
from monkeytype.db.sqlite import SQLiteStore, create_call_trace_table
from monkeytype.encoding import CallTraceRow, type_from_json, type_to_json
from monkeytype.tracing import CallTrace
from monkeytype.typing import get_type

from . import core, tgram, tinfer, vals
from .oracle import args, canon, is_anon_td, origin, show, td_fields

LEVEL = "exploration"
RULE = ("types inferred from shape-profiled grammar values (all k), unions accumulated in arrival order as for yields, "
        "their rewritten forms (Tuple[T, ...] excluded and counted, DESIGN 3.5), types drawn from the type grammar; "
        "CallTraces over 20 fixture functions of every kind x return/yield in {absent, NoneType, type}. Oracles: "
        "decode(encode(T)) structurally equals T; encode is stable across independent builds (re-inference, key-order "
        "permutation, decode) up to union member order and across PYTHONHASHSEED (thorough); trace round trip through "
        "CallTraceRow and through a SQLite file. Non-trivial: depth>=2, or contains TypedDict / Tuple[()] / Type / "
        "DefaultDict / nested class; distinct by digest.")
ASSUMPTIONS = ["unions are sets: member order is normalised before encoded texts are compared (DESIGN 3.6)",
               "Tuple[T, ...] is outside the quantifier (only RewriteLargeUnion creates it; never stored)"]

REWRITERS = [mt.RemoveEmptyContainers(), mt.RewriteConfigDict(), mt.RewriteLargeUnion(2), mt.RewriteLargeUnion(5),
             mt.RewriteMostSpecificCommonBase(), mt.RewriteGenerator(), mt.DEFAULT_REWRITER]


def norm_json(text):
    """format-agnostic normal form of an encoded type: every JSON *array* is sorted by the text of its elements, so union
    member order does not matter (tuple element order is checked by the round trip instead). Object key order is kept:
    the stored text is what rows are de-duplicated by, so two structurally equal types must agree on it."""
    def n(d):
        if isinstance(d, dict):
            return {k: n(v) for k, v in d.items()}
        if isinstance(d, list):
            return sorted((n(x) for x in d), key=lambda x: json.dumps(x))
        return d
    return json.dumps(n(json.loads(text)))


def has_ellipsis(t):
    if is_anon_td(t):
        r, o = td_fields(t)
        return any(has_ellipsis(x) for x in list(r.values()) + list(o.values()))
    if origin(t) is not None:
        return any(m is Ellipsis or (m is not Ellipsis and not isinstance(m, (list, tuple)) and has_ellipsis(m)) for m in args(t))
    return False


def interesting(t):
    r = repr(canon(t))
    return any(x in r for x in ("'TD'", "'tuple', ()", "'type'", "'defaultdict'", "Outer.Inner")) or r.count("('G'") >= 2


def _other_class(a, b):
    """a named (importable) class at some position of `a` that is not the very same object at that position of `b`; the two
    types are already known to be structurally equal"""
    from .oracle import args, is_anon_td, origin, td_fields
    if is_anon_td(a) or is_anon_td(b):
        if is_anon_td(a) and is_anon_td(b):
            fa, fb = td_fields(a), td_fields(b)
            for da, db in zip(fa, fb):
                for k_ in da:
                    if k_ in db:
                        r = _other_class(da[k_], db[k_])
                        if r is not None:
                            return r
        return None
    oa = origin(a)
    if oa is None:
        if isinstance(a, type) and isinstance(b, type) and a is not b and (a.__module__, a.__qualname__) == (b.__module__, b.__qualname__):
            return a
        return None
    if oa is Union:
        return None  # member order is free: identity of union members is covered by the non-union positions of other cases
    xa, xb = args(a), args(b)
    if len(xa) != len(xb):
        return None
    for u, v in zip(xa, xb):
        if u is Ellipsis or isinstance(u, (list, tuple)):
            continue
        r = _other_class(u, v)
        if r is not None:
            return r
    return None


def check_type(ctx, spec, T, label):
    if has_ellipsis(T):
        ctx.label("excluded:Tuple[T,...]")
        return None
    try:
        j = type_to_json(T)
    except Exception as e:
        return ctx.fail(f"C08/encode-raises:{type(e).__name__}", spec, f"type_to_json({show(T)}) raised {e!r}")
    try:
        T2 = type_from_json(j)
    except Exception as e:
        return ctx.fail(f"C08/decode-raises:{type(e).__name__}", spec, f"type_from_json({j}) raised {e!r}")
    if canon(T2) != canon(T):
        return ctx.fail("C08/round-trip-differs", spec, f"{show(T)} decoded as {show(T2)} via {j}")
    other = _other_class(T, T2)
    if other is not None:
        return ctx.fail("C08/round-trip-differs", spec, f"{show(T)} decodes to a type that mentions another class object than {other!r} (same module and name, not the same class) via {j}")
    try:
        j2 = type_to_json(T2)
    except Exception as e:
        return ctx.fail(f"C08/encode-raises:{type(e).__name__}", spec, f"re-encoding decoded {show(T2)} raised {e!r}")
    if norm_json(j2) != norm_json(j):
        return ctx.fail("C08/encoding-not-structural", spec, f"decoded type re-encodes differently: {j} vs {j2}")
    return j


def perm_spec(s, rnd):
    """same value, dict items / set members inserted in another order"""
    k = s[0]
    if k in ("dict", "ddict"):
        items = [[a, perm_spec(b, rnd)] for a, b in s[1]]
        keys = [vals.build(a) for a, _ in items]
        # only permute when no two keys are equal (1 == True == 1.0: the survivor would depend on order)
        if all(not (x == y) for i, x in enumerate(keys) for y in keys[:i]):
            rnd.shuffle(items)
        return [k, items]
    if k == "set":
        m = list(s[1])
        built = [vals.build(e) for e in m]
        if all(not (x == y) for i, x in enumerate(built) for y in built[:i]):
            rnd.shuffle(m)
        return [k, m]
    if k in ("list", "tuple"):
        return [k, [perm_spec(e, rnd) for e in s[1]]]
    return s


def do_values(ctx, specs, k, rnd, mode):
    vs = [vals.build(s) for s in specs]
    if mode == "yield":
        T = None
        for v in vs:
            t = get_type(v, k)
            T = t if T is None else Union[T, t]
        if T is None:
            return
    else:
        T = tinfer.infer(vs, k)
    spec = ["V", specs, k, mode]
    ctx.case(spec, interesting(T), ["inferred:" + mode])
    j = check_type(ctx, spec, T, "inferred")
    if j is None:
        return
    # independent rebuild with permuted insertion orders
    specs2 = [perm_spec(s, rnd) for s in specs]
    vs2 = [vals.build(s) for s in specs2]
    if mode == "yield":
        T2 = None
        for v in vs2:
            t = get_type(v, k)
            T2 = t if T2 is None else Union[T2, t]
    else:
        T2 = tinfer.infer(vs2, k)
    j2 = type_to_json(T2)
    if norm_json(j) != norm_json(j2):
        ctx.fail("C08/encoding-not-structural", spec + [specs2], f"same values, other insertion order: {j} vs {j2}")
    for rw in REWRITERS:
        try:
            R = rw.rewrite(T)
        except Exception:
            continue  # C07 owns rewriter crashes
        check_type(ctx, spec, R, "rewritten")
        ctx.label("rewritten")


# ---- call traces ------------------------------------------------------------------------------
RY = ["absent", "none", "type"]


def do_trace(ctx, fname, argspecs, k, r, y, tmpdir):
    import fx_basic
    f = fx_basic.FUNCS[fname]
    names = list(f.__code__.co_varnames[: f.__code__.co_argcount + f.__code__.co_kwonlyargcount])
    arg_types = {n: get_type(vals.build(s), k) for n, s in zip(names, argspecs)}
    other = get_type(vals.build(argspecs[-1]), k) if argspecs else int
    rt = {"absent": None, "none": type(None), "type": other}[r]
    yt = {"absent": None, "none": type(None), "type": other}[y]
    if any(has_ellipsis(t) for t in arg_types.values()):
        return
    t = CallTrace(f, arg_types, rt, yt)
    spec = ["TR", fname, argspecs, k, r, y]
    ctx.case(spec, True, ["trace", "fn:" + fname.split(".")[-1] if False else "trace-kind:" + ("method" if "." in fname else "function"), f"ret={r}", f"yield={y}"])

    def compare(t2, via):
        if t2.func is not f:
            return ctx.fail("C08/trace-function-differs", spec, f"{via}: decoded func {t2.func!r} is not {f!r}")
        if set(t2.arg_types) != set(arg_types) or any(canon(t2.arg_types[n]) != canon(arg_types[n]) for n in arg_types):
            return ctx.fail("C08/trace-arg-types-differ", spec, f"{via}: {arg_types} -> {t2.arg_types}")
        for what, a, b in (("return", rt, t2.return_type), ("yield", yt, t2.yield_type)):
            if (a is None) != (b is None):
                return ctx.fail(f"C08/trace-{what}-absence-not-kept", spec, f"{via}: {what} {a!r} -> {b!r}")
            if a is not None and canon(a) != canon(b):
                return ctx.fail(f"C08/trace-{what}-type-differs", spec, f"{via}: {what} {show(a)} -> {show(b)}")

    try:
        t2 = CallTraceRow.from_trace(t).to_trace()
    except Exception as e:
        return ctx.fail(f"C08/trace-round-trip-raises:{type(e).__name__}", spec, repr(e))
    compare(t2, "CallTraceRow")
    path = os.path.join(tmpdir, "t.sqlite3")
    if os.path.exists(path):
        os.unlink(path)
    store = SQLiteStore.make_store(path)
    try:
        store.add([t])
    except Exception as e:
        return ctx.fail(f"C08/trace-store-add-raises:{type(e).__name__}", spec, f"SQLiteStore.add of a trace whose row encodes fine: {e!r}")
    finally:
        store.conn.close()
    store2 = SQLiteStore.make_store(path)
    rows = store2.filter(f.__module__, f.__qualname__)
    store2.conn.close()
    if len(rows) != 1:
        return ctx.fail("C08/trace-store-row-count", spec, f"{len(rows)} rows for one added trace")
    try:
        t3 = rows[0].to_trace()
    except Exception as e:
        return ctx.fail(f"C08/trace-round-trip-raises:{type(e).__name__}", spec, "via store: " + repr(e))
    compare(t3, "SQLiteStore file")


def do_trace_batch(ctx, fname, tmpdir):
    """all nine absent / NoneType / type combinations of one function in ONE batch: nine distinct rows come back and decode"""
    import fx_basic
    f = fx_basic.FUNCS[fname]
    names = list(f.__code__.co_varnames[: f.__code__.co_argcount + f.__code__.co_kwonlyargcount])
    at = {n: int for n in names}
    opts = {"absent": None, "none": type(None), "type": str}
    batch = [CallTrace(f, dict(at), opts[r], opts[y]) for r in RY for y in RY]
    path = os.path.join(tmpdir, "b.sqlite3")
    if os.path.exists(path):
        os.unlink(path)
    store = SQLiteStore.make_store(path)
    store.add(batch + batch[:3])
    store.conn.close()
    store2 = SQLiteStore.make_store(path)
    rows = store2.filter(f.__module__, f.__qualname__)
    store2.conn.close()
    spec = ["TRBATCH", fname]
    ctx.case(spec, True, ["trace-batch"])
    try:
        got = sorted((("absent" if t.return_type is None else "none" if t.return_type is type(None) else "type"),
                      ("absent" if t.yield_type is None else "none" if t.yield_type is type(None) else "type")) for t in (r.to_trace() for r in rows))
    except Exception as e:
        return ctx.fail(f"C08/trace-round-trip-raises:{type(e).__name__}", spec, repr(e))
    want = sorted((r, y) for r in RY for y in RY)
    if got != want:
        return ctx.fail("C08/traces-of-one-batch-not-all-returned", spec, f"{fname}: stored 9 traces differing only in return/yield, got back {got}")


REIMPORT_SRC = """
class Cfg:
    class Inner:
        pass

    def method(self, a):
        return a


def handle(a, b=None):
    return a
"""


def reimport_history(ctx, tmpdir, k):
    """a stored row is decoded, the module it names is executed again (reload, or dropped from sys.modules and imported afresh),
    and the SAME row is decoded again: names are resolved when a row is decoded, so it must come back as the function and the
    classes the module has NOW"""
    import importlib
    import sys
    from typing import Dict, List, Type
    name = "c08re_%d_%d" % (os.getpid(), k)
    sys.path.insert(0, tmpdir)
    try:
        with open(os.path.join(tmpdir, name + ".py"), "w") as f:
            f.write(REIMPORT_SRC)
        importlib.invalidate_caches()
        mod = importlib.import_module(name)
        rows = [CallTraceRow.from_trace(CallTrace(mod.handle, {"a": mod.Cfg, "b": List[mod.Cfg.Inner]}, Type[mod.Cfg], Dict[str, mod.Cfg.Inner])),
                CallTraceRow.from_trace(CallTrace(mod.Cfg.method, {"self": mod.Cfg, "a": int}, mod.Cfg.Inner, None))]
        for phase in ("first", "reload", "fresh-import", "reload"):
            if phase == "reload":
                mod = importlib.reload(mod)
            elif phase == "fresh-import":
                del sys.modules[name]
                mod = importlib.import_module(name)
            spec = ["REIMPORT", k, phase]
            ctx.case(spec, True, ["reimport-history:" + phase])
            try:
                t1, t2 = rows[0].to_trace(), rows[1].to_trace()
            except Exception as e:
                return ctx.fail(f"C08/trace-round-trip-raises:{type(e).__name__}", spec, f"decoding after {phase}: {e!r}", raise_=False)
            if t1.func is not mod.handle or t2.func is not mod.Cfg.method:
                return ctx.fail("C08/trace-function-differs", spec, f"after {phase} the row decodes to a function object that is no longer the module's `handle` / `Cfg.method`", raise_=False)
            got = [t1.arg_types["a"], typing.get_args(t1.arg_types["b"])[0], typing.get_args(t1.return_type)[0], typing.get_args(t1.yield_type)[1], t2.arg_types["self"], t2.return_type]
            want = [mod.Cfg, mod.Cfg.Inner, mod.Cfg, mod.Cfg.Inner, mod.Cfg, mod.Cfg.Inner]
            if any(g is not w for g, w in zip(got, want)):
                return ctx.fail("C08/trace-arg-types-differ", spec, f"after {phase} the row decodes to class objects that are no longer the module's `Cfg` / `Cfg.Inner`", raise_=False)
    finally:
        sys.path.remove(tmpdir)
        sys.modules.pop(name, None)


MQ_DICT = ["dict", [[["lit", "module"], ["lit", 0]], [["lit", "qualname"], ["lit", "s"]]]]
# a dict keyed by instances of a str subclass whose str() is not the key's own text (`class Color(str, Enum)`): the field names
# of the TypedDict are the keys' characters
LABEL_DICT = ["dict", [[["labelkey", "red"], ["lit", 0]], [["labelkey", "green"], ["lit", "s"]]]]
# keys named like the parameters of the TypedDict constructor
KW_DICT = ["dict", [[["lit", "total"], ["lit", 0]], [["lit", "cls"], ["lit", "s"]]]]
KW_DICT2 = ["dict", [[["lit", "_fields"], ["lit", 0]], [["lit", "_typename"], ["lit", "s"]]]]


def shard(ctx):
    q = ctx.tier == "quick"
    import fx_basic
    tmpdir = tempfile.mkdtemp(prefix="c08-")
    try:
        def f1(ctx):
            @given(vals.shaped_multiset(), st.integers(0, 1000), st.integers(0, 2**32), st.sampled_from(["merge", "yield"]))
            def test(specs, kd, rs, mode):
                import random
                do_values(ctx, specs, vals.k_for(specs, kd), random.Random(rs), mode)
            return test

        def f2(ctx):
            @given(tgram.types())
            def test(tspec):
                T = tgram.build(tspec)
                ctx.case(["T", tspec], interesting(T), ["grammar"])
                check_type(ctx, ["T", tspec], T, "grammar")
            return test

        def f3(ctx):
            @given(st.sampled_from(sorted(fx_basic.FUNCS)), st.lists(st.one_of(vals.values(2), vals.values(2), st.just(MQ_DICT), st.just(["list", [MQ_DICT]]), st.just(LABEL_DICT), st.just(KW_DICT), st.just(KW_DICT2)), min_size=1, max_size=4), st.sampled_from([0, 2, 5]),
                   st.sampled_from(RY), st.sampled_from(RY))
            def test(fname, argspecs, k, r, y):
                do_trace(ctx, fname, argspecs, k, r, y, tmpdir)
            return test

        core.run_hypothesis(ctx, f1, 300 if q else 6000, salt=1)
        core.run_hypothesis(ctx, f2, 300 if q else 6000, salt=2)
        core.run_hypothesis(ctx, f3, 60 if q else 800, salt=3)
        # exhaustive: every fixture function x 9 return/yield combinations
        if ctx.shard == 2 % ctx.nshards:
            # user classes whose names coincide with builtin types that `builtins` does not export under that name
            from typing import Dict, List, Optional, Type
            for cls in (fx_basic.NoneType, fx_basic.mappingproxy, fx_basic.NotImplementedType, fx_basic.Movie):
                for T in (cls, Type[cls], Optional[cls], List[cls], Dict[str, Optional[cls]], Union[cls, type(None), int]):
                    spec = ["NAMESAKE", cls.__name__, repr(T)]
                    ctx.case(spec, True, ["builtin-namesake-class"])
                    try:
                        check_type(ctx, spec, T, "grammar")
                    except core.Violation as v:
                        ctx.record_violation(v.signature, v.spec, v.message)
            # a dict key with a lone surrogate (what os.fsdecode gives for a non-UTF-8 file name) as a TypedDict field name
            for k_ in (0, 2):
                try:
                    do_trace(ctx, "plain", [["dict", [[["lit", "caf\u00e9"], ["lit", 0]], [["lit", "\udc80name"], ["lit", "s"]]]], ["lit", 0]], k_, "type", "absent", tmpdir)
                except core.Violation as v:
                    ctx.record_violation(v.signature, v.spec, v.message)
        if ctx.shard == 1 % ctx.nshards:
            reimport_history(ctx, tmpdir, 0)
            check_type(ctx, ["V", [MQ_DICT], 2, "merge"], tinfer.infer([vals.build(MQ_DICT), vals.build(["list", [MQ_DICT]])], 2), "inferred")
        if ctx.shard == 0:
            for fname in sorted(fx_basic.FUNCS):
                try:
                    do_trace_batch(ctx, fname, tmpdir)
                except core.Violation as v:
                    ctx.record_violation(v.signature, v.spec, v.message)
                for r in RY:
                    for y in RY:
                        for last in (["dict", [[["lit", "a"], ["inst", "Outer.Inner"]]]], ["inst", "Registry"], ["cls", "Registry"], ["special", "func"], MQ_DICT, LABEL_DICT, KW_DICT):
                            try:
                                do_trace(ctx, fname, [["lit", 0], last], 2, r, y, tmpdir)
                            except core.Violation as v:
                                ctx.record_violation(v.signature, v.spec, v.message)
    finally:
        shutil.rmtree(tmpdir, ignore_errors=True)


def permute_unions(s, rnd):
    if s[0] == "Union":
        m = [permute_unions(x, rnd) for x in s[1]]
        rnd.shuffle(m)
        return ["Union", m]
    if s[0] in ("Tuple",):
        return [s[0], [permute_unions(x, rnd) for x in s[1]]]
    if s[0] == "TD":
        return ["TD", [[n, permute_unions(t, rnd)] for n, t in s[1]], [[n, permute_unions(t, rnd)] for n, t in s[2]]]
    return [s[0]] + [permute_unions(x, rnd) if isinstance(x, list) and x and isinstance(x[0], str) and x[0][:1].isupper() or (isinstance(x, list) and x and x[0] in ("atom", "cls")) else x for x in s[1:]]


CHILD_T = r"""
import sys, json
sys.path[:0] = json.loads(sys.argv[1])
from mtverif import tgram
from monkeytype.encoding import type_to_json
json.dump([type_to_json(tgram.build(s)) for s in json.load(sys.stdin)], sys.stdout)
"""


def history_independence(ctx, n):
    """Exact text: a type built from a spec (deterministic member order) must encode to the same text in a
    fresh interpreter that has encoded nothing else, and here after ==-equal variants with permuted union
    order have been encoded first. Same structure, same order => same text, whatever happened before."""
    import hypothesis
    import random
    specs = []

    @hypothesis.seed(ctx.shard_seed(78))
    @core.hyp_settings(n, shrink=False)
    @given(tgram.class_unions())
    def collect(s):
        # flat unions of plain classes only: for these CPython's typing keeps the member order it was given
        # (nested generics such as Dict[Union[int, str], int] come out of typing's own ==-keyed cache and
        # would make the construction itself, not the encoder, history dependent)
        specs.append(s)

    collect()
    rnd = random.Random(ctx.seed)
    here = []
    for s in specs:
        for _ in range(2):
            try:
                type_to_json(tgram.build(permute_unions(s, rnd)))
            except Exception:
                pass
        try:
            here.append(type_to_json(tgram.build(s)))
        except Exception as e:
            here.append(None)
    p = subprocess.run([sys.executable, "-c", CHILD_T, json.dumps(sys.path)], input=json.dumps(specs), capture_output=True, text=True)
    if p.returncode != 0:
        # a type the encoder cannot handle in the child is C08's encode-raises (found elsewhere); skip
        ctx.notes.append("history-independence child failed: " + p.stderr[-300:])
        return
    for s, a, b in zip(specs, here, json.loads(p.stdout)):
        ctx.label("history-independence-comparisons")
        if a is not None and a != b:
            ctx.fail("C08/encoding-depends-on-history", ["T", s], f"encoded after ==-equal variants: {a}; in a fresh interpreter: {b}", raise_=False)


CHILD = r"""
import sys, json
sys.path[:0] = json.loads(sys.argv[1])
from mtverif import vals, tinfer
from monkeytype.encoding import type_to_json
out = []
for specs, k in json.load(sys.stdin):
    out.append(type_to_json(tinfer.infer([vals.build(s) for s in specs], k)))
json.dump(out, sys.stdout)
"""


def cross_process(ctx, n, seeds):
    """same value specs, fresh interpreters with different PYTHONHASHSEED: encoded text identical up to union order"""
    import hypothesis
    cases = []

    @hypothesis.seed(ctx.shard_seed(77))
    @core.hyp_settings(n, shrink=False)
    @given(vals.shaped_multiset(), st.integers(0, 1000))
    def collect(specs, kd):
        cases.append([specs, vals.k_for(specs, kd)])

    collect()
    base = [norm_json(type_to_json(tinfer.infer([vals.build(s) for s in sp], k))) for sp, k in cases]
    for hs in seeds:
        env = dict(os.environ, PYTHONHASHSEED=str(hs))
        p = subprocess.run([sys.executable, "-c", CHILD, json.dumps(sys.path)], input=json.dumps(cases), capture_output=True, text=True, env=env)
        if p.returncode != 0:
            raise core.HarnessError("cross-process child failed: " + p.stderr[-1500:])
        for (sp, k), a, b in zip(cases, base, json.loads(p.stdout)):
            ctx.label("cross-process-comparisons")
            if a != norm_json(b):
                ctx.fail("C08/encoding-depends-on-process", ["V", sp, k, "merge"], f"PYTHONHASHSEED={hs}: {a} vs {b}", raise_=False)


def run(ctx):
    core.run_sharded(ctx, __name__, "shard", 8 if ctx.tier == "quick" else 16)
    cross_process(ctx, 60 if ctx.tier == "quick" else 400, [1, 2] if ctx.tier == "quick" else [1, 2, 3, 4, 5, 6, 7, 8, 9, 10])
    history_independence(ctx, 150 if ctx.tier == "quick" else 2000)
    if ctx.tier == "thorough":
        core.run_fuzz(ctx, 60000)


def replay(ctx, case):
    if case and case[0] == "REIMPORT":
        d = tempfile.mkdtemp(prefix="c08-")
        try:
            return reimport_history(ctx, d, 99)
        finally:
            shutil.rmtree(d, ignore_errors=True)
    import random
    if case[0] == "V":
        do_values(ctx, case[1], case[2], random.Random(0), case[3])
    elif case[0] == "T":
        check_type(ctx, case, tgram.build(case[1]), "replay")
    elif case[0] == "TRBATCH":
        d = tempfile.mkdtemp(prefix="c08-")
        try:
            do_trace_batch(ctx, case[1], d)
        finally:
            shutil.rmtree(d, ignore_errors=True)
    elif case[0] == "TR":
        d = tempfile.mkdtemp(prefix="c08-")
        try:
            do_trace(ctx, case[1], case[2], case[3], case[4], case[5], d)
        finally:
            shutil.rmtree(d, ignore_errors=True)
