"""C07 - shipped rewriters never narrow, never crash, and fire only on their trigger."""
import collections
import collections.abc
import itertools
from typing import Any, Union

from hypothesis import given, strategies as st

import monkeytype.typing as mt
from monkeytype.config import DefaultConfig

from . import core, tgram, tinfer, vals
from .oracle import (NoneType, args, canon, conforms, inhabitants, is_anon_td, origin, show, td_fields)

LEVEL = "exploration"
RULE = ("types from (i) exhaustive enumeration of atoms, level-1 generics, all unions of 2..3 of those 42 members (15,947 types), "
        "selected 6..7-member unions and wrappers of the 2-member unions, (ii) a recursive Hypothesis grammar "
        "(depth<=3, unions of 2..8, TypedDicts) plus focused unions (same-element tuples, classes, dicts), "
        "(iii) types inferred from shape-profiled grammar values; each x every shipped rewriter, the default chain and "
        "a drawn ordered pair chained. Non-trivial: the type contains a union or some rewriter changes it; distinct by digest of the type spec.")
ASSUMPTIONS = ["input types are read strictly (C[Any] denotes the empty container only, DESIGN 3.2/3.15); results leniently",
               "trigger check is one-directional: trigger absent anywhere in T => rewrite(T) structurally equals T"]


def rewriters():
    return {
        "REC": mt.RemoveEmptyContainers(), "CD": mt.RewriteConfigDict(), "LU2": mt.RewriteLargeUnion(2),
        "LU5": mt.RewriteLargeUnion(5), "MSCB": mt.RewriteMostSpecificCommonBase(), "GEN": mt.RewriteGenerator(),
        "NOOP": mt.NoOpRewriter(), "DEFAULT": mt.DEFAULT_REWRITER, "CONFIG": DefaultConfig().type_rewriter(),
    }


DEFAULT_PARTS = ["REC", "CD", "LU5", "GEN"]
SINGLE = ["REC", "CD", "LU2", "LU5", "MSCB", "GEN", "NOOP"]


# ---- independent structure walkers -------------------------------------------------------------
def subtypes(t):
    """every type node anywhere inside t (all positions, whether or not a rewriter descends there)"""
    out = [t]
    if is_anon_td(t):
        r, o = td_fields(t)
        for f in list(r.values()) + list(o.values()):
            out += subtypes(f)
        return out
    if origin(t) is not None:
        for m in args(t):
            if m is not Ellipsis and not isinstance(m, (list, tuple)):
                out += subtypes(m)
    return out


def unions_in(t):
    return [x for x in subtypes(t) if origin(x) is Union]


def all_any_generic(m):
    a = args(m)
    return origin(m) is not None and origin(m) is not Union and bool(a) and all(x is Any for x in a)


def trig_REC(t):
    for u in unions_in(t):
        ms = args(u)
        for m in ms:
            if all_any_generic(m) and any(n is not m and origin(n) is origin(m) and not all_any_generic(n) for n in ms):
                return True
    return False


def trig_CD(t):
    for u in unions_in(t):
        ms = args(u)
        if all(origin(m) is dict and len(args(m)) == 2 for m in ms) and len({canon(args(m)[0]) for m in ms}) == 1:
            return True
    return False


def trig_LU(n):
    return lambda t: any(len(args(u)) > n for u in unions_in(t))


def plain_class(m):
    return isinstance(m, type) and origin(m) is None


def trig_MSCB(t):
    return any(all(plain_class(m) for m in args(u)) for u in unions_in(t))


def trig_GEN(t):
    return any(origin(g) is collections.abc.Generator and args(g)[1] is NoneType and args(g)[2] is NoneType for g in subtypes(t))


TRIG = {"REC": trig_REC, "CD": trig_CD, "LU2": trig_LU(2), "LU5": trig_LU(5), "MSCB": trig_MSCB, "GEN": trig_GEN,
        "NOOP": lambda t: False}


# ---- reference model of the documented RemoveEmptyContainers rule -------------------------------
OPTIONAL_DESCENT = [collections.defaultdict, collections.abc.Iterator, type]


def rec_models(t):
    """the documented rule says nothing about which generics are descended into: List/Set/Dict/Tuple/Generator/
    TypedDict always are; DefaultDict / Iterator / Type may or may not be (any combination is accepted)"""
    out = set()
    for mask in range(8):
        extra = tuple(o for i, o in enumerate(OPTIONAL_DESCENT) if mask >> i & 1)
        out.add(rec_model(t, extra))
    return out


def rec_model(t, extra=()):
    """canon of: drop an all-Any generic from a union only beside a not-all-Any generic of the same origin"""
    if is_anon_td(t):
        r, o = td_fields(t)
        return ("TD", frozenset((k, rec_model(v, extra)) for k, v in r.items()), frozenset((k, rec_model(v, extra)) for k, v in o.items()))
    og = origin(t)
    if og is Union:
        ms = args(t)
        keep = [m for m in ms if not (all_any_generic(m) and any(
            n is not m and origin(n) is origin(m) and not all_any_generic(n) for n in ms))]
        cs = set()
        for m in keep:
            c = rec_model(m, extra)
            if c[0] == "U":
                cs |= c[1]
            else:
                cs.add(c)
        return next(iter(cs)) if len(cs) == 1 else ("U", frozenset(cs))
    if og in (list, set, dict, tuple, collections.abc.Generator) + tuple(extra) and args(t):
        c = canon(t)
        return (c[0], c[1], tuple(("...",) if m is Ellipsis else rec_model(m, extra) for m in args(t)))
    return canon(t)


# ---- the oracle ----------------------------------------------------------------------------------
def check_type(ctx, spec, T, witnesses, pair):
    RW = rewriters()
    try:
        inh = inhabitants(T)
    except core.HarnessError:
        raise
    for v in inh:
        if not conforms(v, T):
            raise core.HarnessError(f"bad inhabitant {v!r} of {show(T)}")
    vals_ = inh + list(witnesses)
    changed_any = False
    results = {}
    for name, rw in RW.items():
        try:
            R = rw.rewrite(T)
        except Exception as e:
            ctx.fail(f"C07/{name}-raises:{type(e).__name__}", spec, f"{name}.rewrite({show(T)}) raised {e!r}")
            continue
        try:
            cR = canon(R)
        except core.HarnessError:
            ctx.fail(f"C07/{name}-returns-non-type", spec, f"{name}.rewrite({show(T)}) returned {R!r}")
            continue
        results[name] = R
        changed = cR != canon(T)
        changed_any |= changed
        if changed:
            ctx.label("changed:" + name)
        if name in TRIG and changed and not TRIG[name](T):
            ctx.fail(f"C07/{name}-changed-without-trigger", spec, f"{name}: {show(T)} -> {show(R)} although its documented trigger is absent")
        for v in vals_:
            if not conforms(v, R):
                ctx.fail(f"C07/{name}-narrows", spec, f"{name}: {show(T)} -> {show(R)} no longer admits {v!r}")
                break
        if name == "REC" and cR not in rec_models(T):
            ctx.fail("C07/REC-deviates-from-documented-rule", spec, f"REC: {show(T)} -> {show(R)}, documented rule gives {rec_model(T)}")
    # every ordered pair (A, B): where A leaves T alone the pair is B alone (judged above); where A changed T, B is applied to A's
    # result and the values T admitted must still be admitted
    for a_name, RA in list(results.items()):
        if a_name not in SINGLE or canon(RA) == canon(T):
            continue
        for b_name in SINGLE:
            try:
                RB = RW[b_name].rewrite(RA)
            except Exception as e:
                ctx.fail(f"C07/chain-raises:{type(e).__name__}", spec + [[a_name, b_name]], f"{b_name} after {a_name} on {show(T)}: {e!r}")
                continue
            for v in vals_:
                if not conforms(v, RB):
                    ctx.fail("C07/chain-narrows", spec + [[a_name, b_name]], f"{b_name} after {a_name}: {show(T)} -> {show(RA)} -> {show(RB)} no longer admits {v!r}")
                    break
    # chains are sequential compositions
    for cname, parts in (("DEFAULT", DEFAULT_PARTS), ("CONFIG", DEFAULT_PARTS), ("PAIR", list(pair))):
        try:
            exp = T
            for p in parts:
                exp = RW[p].rewrite(exp)
            got = results.get(cname) if cname != "PAIR" else mt.ChainedRewriter([RW[p] for p in parts]).rewrite(T)
        except Exception as e:
            if cname == "PAIR":
                ctx.fail(f"C07/chain-raises:{type(e).__name__}", spec + [list(pair)], f"chain {parts} on {show(T)}: {e!r}")
            continue
        if got is None:
            continue
        if canon(got) != canon(exp):
            ctx.fail(f"C07/{cname}-chain-not-composition", spec + [list(pair)], f"{cname}{parts}: {show(T)} -> {show(got)} but sequential application gives {show(exp)}")
        if cname == "PAIR":
            for v in vals_:
                if not conforms(v, got):
                    ctx.fail("C07/chain-narrows", spec + [list(pair)], f"chain {parts}: {show(T)} -> {show(got)} no longer admits {v!r}")
                    break
    return changed_any


def do_spec(ctx, tspec, pair, src):
    T = tgram.build(tspec)
    nt = tgram.has(tspec, "Union")
    ch = check_type(ctx, ["T", tspec], T, [], pair)
    ctx.case(["T", tspec], nt or ch, [src, "has-union" if nt else "no-union"])


def do_values(ctx, specs, k, pair):
    vs = [vals.build(s) for s in specs]
    T = tinfer.infer(vs, k)
    ch = check_type(ctx, ["V", specs, k], T, vs, pair)
    ctx.case(["V", specs, k], origin(T) is Union or "Union" in repr(T) or ch, ["inferred"])


pairs = st.tuples(st.sampled_from(SINGLE), st.sampled_from(SINGLE))


def shard(ctx):
    q = ctx.tier == "quick"

    def f1(ctx):
        @given(st.one_of(tgram.types(), tgram.types(), tgram.focused()), pairs)
        def test(tspec, pair):
            do_spec(ctx, tspec, pair, "random-grammar")
        return test

    def f2(ctx):
        @given(vals.shaped_multiset(), st.integers(0, 1000), pairs)
        def test(specs, kd, pair):
            do_values(ctx, specs, vals.k_for(specs, kd), pair)
        return test

    core.run_hypothesis(ctx, f1, 400 if q else 8000, salt=1)
    core.run_hypothesis(ctx, f2, 250 if q else 5000, salt=2)
    stride = 12 if q else 1
    off = ctx.seed % stride
    n = 0
    allpairs = list(itertools.product(SINGLE, SINGLE))
    for idx, tspec in enumerate(tgram.enumeration()):
        if idx % ctx.nshards != ctx.shard or (idx // ctx.nshards) % stride != off:
            continue
        n += 1
        try:
            do_spec(ctx, tspec, allpairs[idx % len(allpairs)], "enumerated")
        except core.Violation as v:
            ctx.record_violation(v.signature, v.spec, v.message)
    ctx.extra["enumerated_cases"] = n
    ctx.extra["enumeration_complete"] = 1 if stride == 1 else 0


def run(ctx):
    core.run_sharded(ctx, __name__, "shard", 8 if ctx.tier == "quick" else 16)
    if ctx.tier == "thorough":
        ctx.extra["exhaustive"] = bool(ctx.extra.get("enumeration_complete"))
        core.run_fuzz(ctx, 60000)


def replay(ctx, case):
    pair = tuple(case[-1]) if isinstance(case[-1], list) and len(case[-1]) == 2 and all(isinstance(x, str) for x in case[-1]) and case[-1][0] in SINGLE else ("NOOP", "NOOP")
    if case[0] == "T":
        do_spec(ctx, case[1], pair, "replay")
    else:
        do_values(ctx, case[1], case[2], pair)
