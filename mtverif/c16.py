"""C16 - --pep_563 confines only annotation-only imports and keeps the module importable."""
import ast
import sys
import types

from hypothesis import given, strategies as st

from . import applysynth as A, c15, core, tracerun

LEVEL = "exploration"
RULE = ("sources as in C15 biased to imports (14 forms: plain, aliased, dotted, star, from-imports that resemble stub imports, "
        "after a docstring / __future__ import / later code, inside functions, inside an existing TYPE_CHECKING block, TYPE_CHECKING "
        "bound only through try/except) x stubs importing new user modules, typing names, names the source already imports and "
        "mypy_extensions.TypedDict (k=3), applied with confinement on, overwrite drawn. Oracle: `from __future__ import annotations` "
        "comes first; every new non-typing import alias sits under `if TYPE_CHECKING:`; C15's eraser-and-diff (source imports stay "
        "where they were); the result executes in a fresh namespace and a recorded workload returns what it returned on the "
        "original. Non-trivial: the source has an import and the stub adds a non-typing import; distinct by digest.")
ASSUMPTIONS = ["imports from `typing` and `__future__` are deliberately left at module level (DESIGN 3.10)"]


def run_module(text, name):
    mod = types.ModuleType(name)
    mod.__dict__["__name__"] = name
    exec(compile(text, name + ".py", "exec"), mod.__dict__)
    return mod.__dict__


def in_type_checking(tree):
    """import aliases located inside `if TYPE_CHECKING:` blocks vs elsewhere"""
    import collections
    inside, outside = collections.Counter(), collections.Counter()

    def walk(nodes, tc):
        for n in nodes:
            if isinstance(n, ast.Import):
                for a in n.names:
                    (inside if tc else outside)[("import", None, a.name, a.asname, 0)] += 1
            elif isinstance(n, ast.ImportFrom):
                for a in n.names:
                    (inside if tc else outside)[("from", n.module, a.name, a.asname, n.level)] += 1
            elif isinstance(n, ast.If):
                is_tc = isinstance(n.test, ast.Name) and n.test.id == "TYPE_CHECKING"
                walk(n.body, tc or is_tc)
                walk(n.orelse, tc)
            else:
                for field in ("body", "orelse", "finalbody", "handlers"):
                    sub = getattr(n, field, None)
                    if isinstance(sub, list):
                        walk([x for x in sub if isinstance(x, ast.AST)], tc)
    walk(tree.body, False)
    return inside, outside


def extra(ctx, case, spec, src, res, stub, mod, added, removed, tdn):
    pid = "C16"
    tree = ast.parse(res)
    body = list(tree.body)
    if body and isinstance(body[0], ast.Expr) and isinstance(getattr(body[0], "value", None), ast.Constant) and isinstance(body[0].value.value, str):
        body = body[1:]
    first = body[0] if body else None
    changed = A.annotations(res) != A.annotations(src) or any(a[1] != "typing" for a in added)
    if changed and not (isinstance(first, ast.ImportFrom) and first.module == "__future__" and any(a.name == "annotations" for a in first.names)):
        return ctx.fail(f"{pid}/future-annotations-import-not-first", case, f"first statement: {ast.unparse(first) if first else None}\n{res[:500]}")
    inside, outside = in_type_checking(tree)
    src_in, src_out = in_type_checking(ast.parse(src))
    new_outside = outside - src_out
    needs_runtime = {("from", "mypy_extensions", "TypedDict", None, 0)} if tdn else set()
    stray = [a for a in new_outside if a[1] not in ("typing", "__future__") and a not in needs_runtime and not (a[0] == "import" and a[2] == "typing")]
    # an alias that merely moved out of a TYPE_CHECKING block of the source is caught by the eraser-and-diff of C15
    stray = [a for a in stray if a in added]
    src_all = A.import_aliases(ast.parse(src))
    stub_al = A.import_aliases(ast.parse(stub))
    twin = [a for a in stray if a in src_all]
    tdbody = [a for a in stray if a not in twin and tdn and a not in stub_al and a[0] == "from" and f"{a[1]}.{a[2]}" in stub]
    other = [a for a in stray if a not in twin and a not in tdbody]
    if other:
        return ctx.fail(f"{pid}/new-import-not-confined", case, f"new imports outside `if TYPE_CHECKING:`: {other}\n{res[:900]}")
    if twin:
        # listed finding: the very same import exists elsewhere in the source (inside a function body or an existing
        # TYPE_CHECKING block), so the stub's import does not count as new and is added at module level unconfined
        ctx.fail(f"{pid}/import-with-function-local-twin-not-confined", case, f"{twin}\n{res[:700]}")
    if tdbody:
        # listed finding: a name used (module-qualified, without an import) in the body of a generated TypedDict class; libcst
        # adds the import itself at module level and the confinement pass, which only knows the stub's import block, leaves it there
        ctx.fail(f"{pid}/import-for-generated-typeddict-body-not-confined", case, f"{tdbody}\n{res[:700]}")
    # confinement MOVES imports, it never drops one: whatever the same stub makes libcst import when confinement is off is
    # imported somewhere in the confined result too (under TYPE_CHECKING or not is judged above)
    if not removed and any(a[1] not in ("typing", "__future__") for a in stub_al):
        from monkeytype.cli import apply_stub_using_libcst
        try:
            plain = apply_stub_using_libcst(stub, src, case[3], False)
        except Exception:
            plain = None
        if plain is not None:
            p_in, p_out = in_type_checking(ast.parse(plain))
            plain_new = (p_in + p_out) - (src_in + src_out)
            have = inside + outside
            dropped = sorted(a for a in plain_new if a[1] not in ("typing", "__future__") and not (a[0] == "import" and a[2] == "typing") and have[a] == 0)
            ctx.label("confined-vs-unconfined-imports")
            # listed finding D38 (same alias-blind removal as D15, here hitting an import libcst itself added): `import m`, added
            # to spell a colliding name as `m.C`, is taken out because the stub has `from m import C`, which goes under
            # TYPE_CHECKING instead - the annotation `m.C` then names a module nothing imports
            stub_from_mods = {a[1] for a in stub_al if a[0] == "from"}
            d38 = [a for a in dropped if a[0] == "import" and a[3] is None and a[2] in stub_from_mods and any(x[0] == "from" and x[1] == a[2] for x in inside)]
            if d38:
                ctx.fail(f"{pid}/module-import-for-qualified-annotation-dropped", case, f"{d38}\n{res[:700]}")
                dropped = [a for a in dropped if a not in d38]
            if dropped:
                return ctx.fail(f"{pid}/new-import-dropped", case, f"applying the stub without confinement imports {dropped}; with confinement the result imports them nowhere\n{res[:1000]}")
    nt = bool(A.import_aliases(ast.parse(src))) and any(a[1] not in ("typing", "__future__") for a in added)
    ctx.label("c16-nontrivial" if nt else "c16-trivial")
    # executes and behaves as before
    d15 = bool(removed) or ctx.hist.get("_last_d15") == ctx.evaluations
    try:
        before = A.workload(vars(mod), spec)
    except Exception as e:
        raise core.HarnessError(f"workload on the original failed: {e!r}")
    try:
        ns = run_module(res, "mtv_c16_result")
    except Exception as e:
        if isinstance(e, NameError) and "TypedDict" in str(e) and tdn and ("from", "mypy_extensions", "TypedDict", None, 0) in inside and ("from", "mypy_extensions", "TypedDict", None, 0) not in outside:
            return ctx.fail(f"{pid}/typeddict-import-confined-but-needed-at-runtime", case,
                            f"generated `class X(TypedDict)` at module level while `TypedDict` is only imported under TYPE_CHECKING: {e!r}")
        if removed:
            ctx.label("skipped-exec:consequence-of-deleted-source-import")
            return
        return ctx.fail(f"{pid}/result-does-not-import:{type(e).__name__}", case, f"{e!r}\n{res}")
    after = A.workload(ns, spec)
    if before != after:
        if removed:
            ctx.label("skipped-workload:consequence-of-deleted-source-import")
            return
        diff = [(b, a) for b, a in zip(before, after) if b != a][:3]
        return ctx.fail(f"{pid}/behaviour-changed", case, f"workload differs: {diff}\n{res}")


def check(ctx, spec, k, overwrite, sc):
    n0 = ctx.evaluations
    def nt(src, stub):
        stub_imports = [a for a in A.import_aliases(ast.parse(stub)) if a[1] not in ("typing", "__future__")]
        return bool(A.import_aliases(ast.parse(src))) and bool(stub_imports)

    c15.check(ctx, spec, k, overwrite, True, sc, pid="C16", extra=extra, nt_rule=nt)


def shard(ctx):
    q = ctx.tier == "quick"
    sc = tracerun.Scratch("c16-")
    try:
        def factory(ctx):
            @given(A.source(), st.sampled_from([0, 3, 3]), st.booleans())
            def test(spec, k, overwrite):
                check(ctx, spec, k, overwrite, sc)
            return test
        core.run_hypothesis(ctx, factory, 40 if q else 800, shrink=not q)

        def factory_pkg(ctx):
            # the `apply --pep_563` command itself on a module that lives in a package and imports a sibling relatively
            @given(A.source(), st.sampled_from([0, 3]), st.booleans())
            def test(spec, k, overwrite):
                c15.cli_apply(ctx, spec, k, overwrite, True, sc, None, pkg=True, pid="C16")
            return test
        core.run_hypothesis(ctx, factory_pkg, 8 if q else 150, shrink=not q, salt=6)
    finally:
        sc.close()


def run(ctx):
    core.run_sharded(ctx, __name__, "shard", 8 if ctx.tier == "quick" else 16)


def replay(ctx, case):
    sc = tracerun.Scratch("c16-")
    try:
        if case[0] == "CLIAPPLY":
            return c15.cli_apply(ctx, case[1], case[2], case[3], True, sc, None, pkg=True, pid="C16")
        check(ctx, case[1], case[2], case[3], sc)
    finally:
        sc.close()
