"""C03 - tracing never changes what the traced program does."""
import collections
import contextlib
import io
import itertools
import logging
import sys

from hypothesis import given, strategies as st

from monkeytype.tracing import CallTraceLogger, trace_calls

import mtv_trip as T
import mtv_wl as WL

from . import core, synth, tracerun, vals

LEVEL = "exploration"
RULE = ("(i) exhaustive: every tripwire kind (17: attribute hooks, __class__ property, descriptors/lazy properties, "
        "journaling __hash__/__eq__/__bool__/__repr__/__len__/__iter__/__contains__, callable objects, list/dict/set/"
        "tuple/defaultdict subclasses overriding container protocols, a self-draining list, metaclasses with "
        "__instancecheck__/__subclasscheck__/__hash__/__eq__) x every role (15: argument, keyword, element, nested "
        "element, dict key, set element, yielded, returned, receiver, method argument, coroutine argument, module "
        "global, caller local, exception exit, consumed) x k in {0,3}, run untraced and traced and compared (results, "
        "exception, stdout, hook journal); (ii) fault enumeration: every single and double log fault, flush fault, "
        "inspection-fault objects x exit by return/exception x pre-installed profiler; (iii) synthesised programs "
        "with tripwire arguments, untraced vs traced. Non-trivial: a tripwire in a traced position or an injected fault; distinct by digest.")
ASSUMPTIONS = ["injected failures are Exception subclasses", "records on the `monkeytype` logging channel are not program output",
               "hooks implemented in C cannot be journaled"]

# the `monkeytype` logging channel is configured the way an application configures logging: a handler that FORMATS every
# record (into a sink that is not program output). Formatting is where a log call's arguments get str()/repr()'d.
_sink = io.StringIO()
_handler = logging.StreamHandler(_sink)
_handler.setFormatter(logging.Formatter("%(asctime)s %(name)s %(levelname)s %(message)s"))
logging.getLogger("monkeytype").addHandler(_handler)
logging.getLogger("monkeytype").setLevel(logging.DEBUG)
logging.getLogger("monkeytype").propagate = False


class ProgramError(Exception):
    pass


class FaultLogger(CallTraceLogger):
    def __init__(self, fail_log_at=(), fail_flush=False):
        self.n = 0
        self.flushes = 0
        self.fail_log_at = set(fail_log_at)
        self.fail_flush = fail_flush
        self.traces = []

    def log(self, t):
        self.n += 1
        if self.n in self.fail_log_at:
            raise RuntimeError("injected log fault")
        self.traces.append(t)

    def flush(self):
        self.flushes += 1
        if self.fail_flush:
            raise RuntimeError("injected flush fault")


def _harness_profiler(frame, event, arg):
    return None


def run_wl(name, name2, role, traced, k=0, fail_log_at=(), fail_flush=False, profiler=False, exit_exc=False, raising=False):
    T.JOURNAL.clear()
    T.RAISE[0] = raising
    buf = io.StringIO()
    errbuf = io.StringIO()
    res = exc = None
    lg = FaultLogger(fail_log_at, fail_flush)
    # the program's own logging set-up: the root logger (unconfigured, as in a program that has not called basicConfig yet)
    root = logging.getLogger()
    root_before = (list(root.handlers), root.level, root.disabled, logging.root.manager.disable)
    path = WL.__file__
    flt = lambda c: c.co_filename == path and c.co_name != "workload"
    # every other configuration builds the tracing context BEFORE the program installs its own profiler and enters it afterwards
    # (`ctx = monkeytype.trace(config)` at start-up, `with ctx:` per request): "the previously installed profiler" is the one in
    # place when the block is ENTERED
    import zlib
    ahead = traced and profiler and zlib.crc32(repr((name, role, sorted(fail_log_at), fail_flush, exit_exc)).encode()) % 2 == 0
    cm = trace_calls(lg, k, flt) if ahead else None
    sys.setprofile(_harness_profiler if profiler else None)
    prev = sys.getprofile()
    try:
        with contextlib.redirect_stdout(buf), contextlib.redirect_stderr(errbuf):
            try:
                if traced:
                    with (cm if cm is not None else trace_calls(lg, k, flt)):
                        res = WL.workload(T.CATALOGUE[name], T.CATALOGUE[name2], role)
                        if exit_exc:
                            raise ProgramError("program's own exception")
                else:
                    res = WL.workload(T.CATALOGUE[name], T.CATALOGUE[name2], role)
                    if exit_exc:
                        raise ProgramError("program's own exception")
            except Exception as e:
                exc = (type(e).__name__, str(e))
        after = sys.getprofile()
        root_after = (list(root.handlers), root.level, root.disabled, logging.root.manager.disable)
    finally:
        sys.setprofile(None)
        T.RAISE[0] = False
        root.handlers[:] = root_before[0]
        root.setLevel(root_before[1])
    return dict(res=repr(res) if not raising else str(type(res)), exc=exc, out=buf.getvalue(), err=errbuf.getvalue(), journal=list(T.JOURNAL),
                logcfg=None if root_after == root_before else f"root logger handlers/level/disabled {root_before} -> {root_after}",
                restored=after is prev, flushes=lg.flushes, ntraces=len(lg.traces), nlog=lg.n)


CALLABLE_TRIPWIRES = {"CallableObj", "M1cls", "H1cls", "CtorCls"}


def classify(entry, role, name=None):
    """signature of a hook the tracer ran on a program object; names the protocol, attribute and role"""
    proto, attr, label = entry
    if attr in ("__code__", "__wrapped__") and role != "global" and name is not None and name not in CALLABLE_TRIPWIRES:
        # the listed finding is about a global named like the function and about CALLABLE locals of caller frames; probing an
        # object that is not even callable is something else
        return f"C03/hook:{proto}:{attr}/non-callable-object/role={role}"
    if proto.startswith("meta "):
        # building Union[...] / List[...] hashes and compares the *classes* of traced values
        return "C03/metaclass-hash-eq-of-value-class"
    if proto in ("__getattr__", "__getattribute__", "__class__ property") and (
            attr in ("__code__", "__wrapped__") or (attr == "__class__" and role == "global")):
        # function lookup: isinstance() on every module global, getattr(x, '__code__'/'__wrapped__') on a global
        # named like the function and on callable locals of caller frames
        return "C03/function-lookup-probes-program-object"
    return f"C03/hook:{proto}:{attr or '-'}/role={role}"


def compare(ctx, spec, a, b, role, faults=False, name=None):
    _sink.seek(0)
    _sink.truncate()
    if (a["res"], a["exc"], a["out"]) != (b["res"], b["exc"], b["out"]):
        return ctx.fail("C03/behaviour-differs", spec, f"untraced res={a['res']} exc={a['exc']} out={a['out']!r}; traced res={b['res']} exc={b['exc']} out={b['out']!r}", raise_=False)
    extra = collections.Counter(b["journal"]) - collections.Counter(a["journal"])
    missing = collections.Counter(a["journal"]) - collections.Counter(b["journal"])
    for e in sorted(set(extra)):
        ctx.fail(classify(e, role, name), spec, f"tracing ran user hook {e} x{extra[e]} on a program object (role {role})", raise_=False)
    if missing:
        ctx.fail("C03/behaviour-differs", spec, f"hooks the program runs untraced are missing when traced: {dict(missing)}", raise_=False)
    if a.get("err") != b.get("err"):
        ctx.fail("C03/behaviour-differs", spec, f"stderr differs: untraced {a.get('err')!r}; traced {b.get('err')!r}", raise_=False)
    if b.get("logcfg"):
        ctx.fail("C03/program-logging-configuration-changed", spec, b["logcfg"], raise_=False)
    if not b["restored"]:
        ctx.fail("C03/profiler-not-restored", spec, "sys.getprofile() after the tracing block is not the profiler installed before it", raise_=False)
    if b["flushes"] != 1:
        ctx.fail("C03/flush-count", spec, f"logger flushed {b['flushes']} times", raise_=False)


def tripwire_table(ctx):
    names = sorted(T.CATALOGUE)
    for i, name in enumerate(names):
        for role in WL.ROLES:
            for k in (0, 3):
                name2 = names[(i + 3) % len(names)]
                spec = ["TRIP", name, name2, role, k]
                pr = role == "sets-profiler"  # the program switches profiling off itself: with a profiler installed before the block
                a = run_wl(name, name2, role, False, k, profiler=pr)
                WL.__dict__.pop("_suspended", None)
                b = run_wl(name, name2, role, True, k, profiler=pr)
                WL.__dict__.pop("_suspended", None)
                ctx.case(spec, True, ["tripwire:" + name, "role:" + role])
                compare(ctx, spec, a, b, role, name=name)


def fault_table(ctx, max_calls):
    """every single and double log fault, flush fault, inspection faults x exit x pre-installed profiler"""
    base = run_wl("Proto", "TList", "method-arg", True)
    n = base["nlog"]
    plans = [()] + [(i,) for i in range(1, n + 2)] + [p for p in itertools.combinations(range(1, min(n, max_calls) + 1), 2)]
    for fl in plans:
        for fail_flush in (False, True):
            for exit_exc in (False, True):
                for profiler in (False, True):
                    for raising in (False, True) if not fl else (False,):
                        name, role = ("Hookable", "nested-elem") if raising else ("Proto", "method-arg")
                        spec = ["FAULT", name, role, list(fl), fail_flush, exit_exc, profiler, raising]
                        a = run_wl(name, "TList", role, False, 0, (), False, profiler, exit_exc, raising)
                        b = run_wl(name, "TList", role, True, 0, fl, fail_flush, profiler, exit_exc, raising)
                        ctx.case(spec, True, ["fault-plan", f"log-faults={len(fl)}", f"flush-fault={fail_flush}", f"profiler={profiler}", f"exit-exc={exit_exc}", f"inspection-fault={raising}"])
                        compare(ctx, spec, a, b, role, faults=True)
                        if not raising:
                            expect = n - len([i for i in fl if i <= n])
                            if b["nlog"] != n or b["ntraces"] != expect:
                                ctx.fail("C03/tracing-stops-after-contained-fault", spec,
                                         f"log faults at {fl}: {b['nlog']} log calls / {b['ntraces']} traces kept, expected {n} / {expect}", raise_=False)


def exit_fault_table(ctx):
    """log faults while generators are suspended / were closed early / were abandoned: whatever the tracer does with their
    pending state when the block ends, a failing log() stays contained and the logger is still flushed exactly once"""
    base = run_wl("Proto", "TList", "suspended-gen", True)
    n = base["nlog"]
    plans = [()] + [(i,) for i in range(1, n + 5)] + [tuple(range(1, n + 8)), tuple(range(n + 1, n + 8))]
    for fl in plans:
        for exit_exc in (False, True):
            for profiler in (False, True):
                spec = ["EXITFAULT", list(fl), exit_exc, profiler]
                a = run_wl("Proto", "TList", "suspended-gen", False, 0, (), False, profiler, exit_exc)
                WL.__dict__.pop("_suspended", None)
                b = run_wl("Proto", "TList", "suspended-gen", True, 0, fl, False, profiler, exit_exc)
                WL.__dict__.pop("_suspended", None)
                ctx.case(spec, True, ["fault-plan", "exit-fault-plan", f"log-faults={min(len(fl), 3)}"])
                compare(ctx, spec, a, b, "suspended-gen", faults=True, name="Proto")


def inspection_fault_table(ctx):
    """objects whose every hook raises, in every role (incl. a module global named like the called function and a
    callable-looking local of a caller frame, where function lookup meets them): the failure stays inside the tracer"""
    for name in ("Hookable", "GetAttr", "ClassProp", "H1", "M1"):
        if name not in T.CATALOGUE:
            continue
        for role in WL.ROLES:
            for exit_exc in (False, True):
                spec = ["FAULT", name, role, [], False, exit_exc, False, True]
                a = run_wl(name, "TList", role, False, 0, (), False, False, exit_exc, True)
                b = run_wl(name, "TList", role, True, 0, (), False, False, exit_exc, True)
                ctx.case(spec, True, ["fault-plan", "inspection-fault=True", "inspection-fault-role:" + role])
                compare(ctx, spec, a, b, role, faults=True, name=name)


# ---- synthesised programs with tripwire arguments --------------------------------------------------
def trip_values():
    return st.sampled_from(sorted(T.CATALOGUE)).map(lambda n: ["trip", n])


_build0 = vals.build


def build(spec):
    if spec[0] == "trip":
        return T.CATALOGUE[spec[1]]()
    if spec[0] in ("list", "tuple"):
        xs = [build(e) for e in spec[1]]
        return xs if spec[0] == "list" else tuple(xs)
    if spec[0] == "dict":
        return {build(a): build(b) for a, b in spec[1]}
    return _build0(spec)


def run_prog(prog, sc, traced, k):
    T.JOURNAL.clear()
    vals.build = build
    buf = io.StringIO()
    try:
        with contextlib.redirect_stdout(buf):
            res = tracerun.run_program(prog, sc, k=k, typer=None, trace=traced)
    finally:
        vals.build = _build0
    R = res.R
    outcome = [(c["fn"].__qualname__, c["kind"], c["state"], c["outcome"], c.get("exc"), len(c["yields"]), c["awaits"]) for c in R.calls.values()]
    return dict(res=repr(outcome), exc=repr(res.driver_error), out=buf.getvalue(), journal=list(T.JOURNAL), restored=res.profile_after is None,
                flushes=res.logger.flushed if traced else 1)


def shard(ctx):
    q = ctx.tier == "quick"
    if ctx.shard == 0:
        tripwire_table(ctx)
    if ctx.shard == 1 % ctx.nshards:
        fault_table(ctx, 4 if q else 12)
    if ctx.shard == 2 % ctx.nshards:
        inspection_fault_table(ctx)
    if ctx.shard == 3 % ctx.nshards:
        exit_fault_table(ctx)
    sc = tracerun.Scratch("c03-")
    try:
        def factory(ctx):
            tv = st.one_of(trip_values(), trip_values().map(lambda t: ["list", [t]]), trip_values().map(lambda t: ["dict", [[["lit", "a"], t]]]),
                           vals.values(1), st.tuples(trip_values(), trip_values()).map(lambda p: ["tuple", list(p)]))

            @given(synth.program(max_funcs=5, max_ops=8, valstrat=tv), st.sampled_from([0, 3]))
            def test(prog, k):
                a = run_prog(prog, sc, False, k)
                b = run_prog(prog, sc, True, k)
                uses = "trip" in repr(prog["ops"])
                ctx.case(["PROG", prog, k], uses, ["program"])
                compare(ctx, ["PROG", prog, k], a, b, "program-argument")
            return test
        core.run_hypothesis(ctx, factory, 250 if q else 4000)
    finally:
        sc.close()


def run(ctx):
    core.run_sharded(ctx, __name__, "shard", 8 if ctx.tier == "quick" else 16)


def replay(ctx, case):
    if case[0] == "TRIP":
        _, name, name2, role, k = case
        pr = role == "sets-profiler"
        compare(ctx, case, run_wl(name, name2, role, False, k, profiler=pr), run_wl(name, name2, role, True, k, profiler=pr), role, name=name)
    elif case[0] == "EXITFAULT":
        _, fl, ee, pr = case
        a = run_wl("Proto", "TList", "suspended-gen", False, 0, (), False, pr, ee)
        WL.__dict__.pop("_suspended", None)
        b = run_wl("Proto", "TList", "suspended-gen", True, 0, tuple(fl), False, pr, ee)
        WL.__dict__.pop("_suspended", None)
        compare(ctx, case, a, b, "suspended-gen", faults=True, name="Proto")
    elif case[0] == "FAULT":
        _, name, role, fl, ff, ee, pr, ra = case
        a = run_wl(name, "TList", role, False, 0, (), False, pr, ee, ra)
        b = run_wl(name, "TList", role, True, 0, tuple(fl), ff, pr, ee, ra)
        compare(ctx, case, a, b, role, faults=True)
    else:
        sc = tracerun.Scratch("c03-")
        try:
            compare(ctx, case, run_prog(case[1], sc, False, case[2]), run_prog(case[1], sc, True, case[2]), "program-argument")
        finally:
            sc.close()
