"""Source synthesiser for C15/C16: text-level modules (docstring, comments, __future__, imports in many forms and places,
decorators, nested defs, partial annotations, odd formatting) + traces for a drawn subset + a workload."""
import ast
import importlib
import io
import tokenize
from typing import Dict, List, Optional

from hypothesis import strategies as st

from monkeytype.stubs import ExistingAnnotationStrategy as EAS, build_module_stubs_from_traces
from monkeytype.tracing import CallTrace
from monkeytype.typing import make_typed_dict

# source import forms: (line, runtime expression usable in bodies or None)
IMPORTS = {
    "import_fxh": ("import fxh", "fxh.Base.__name__"),
    "from_fxh_Base": ("from fxh import Base", "Base.__name__"),
    "from_fxh_Base_as": ("from fxh import Base as B", "B.__name__"),
    "import_fxh_as": ("import fxh as fx", "fx.D1.__name__"),
    "from_fxh_D1_D2": ("from fxh import D1, D2", "D2.__name__"),
    "from_fxh_star": ("from fxh import *", "DD.__name__"),
    "import_dotted": ("import nmpkg.nmutils", "nmpkg.nmutils.B.__name__"),
    "from_dotted": ("from nmpkg.nmutils import B as NB", "NB.__name__"),
    "from_nmfoo": ("from nmfoo import Baz", "Baz.__name__"),
    "import_os": ("import os", "os.sep"),
    "from_typing": ("from typing import List, Optional", None),
    "import_typing": ("import typing", None),
    "from_typing_tc": ("from typing import TYPE_CHECKING", None),
    "import_two": ("import os.path, json", "json.dumps(1)"),
    # a drop-in replacement imported under the name of a module the stub imports from (`import regex as re`)
    "import_json_as_nmfoo": ("import json as nmfoo", "nmfoo.dumps(1)"),
    # a class named like a class of another module that stubs import (fxh.Outer): `Outer` from M1 at runtime while the stub
    # brings `Outer` from M2 and another name from M1
    "from_twinmod_Outer": ("from twinmod import Outer", "Outer.Nested.__name__"),
    # an ALIASED from-import of a module from which the stub brings another name: libcst merges that name into this statement
    # and the confinement pass takes it out again - the alias must survive the rebuild
    "from_twinmod_Outer_as": ("from twinmod import Outer as TO", "TO.Nested.__name__"),
    # a name imported explicitly and THEN a star import of the same module
    # a parenthesised from-import with an inline comment inside the statement
    "from_fxh_paren_comment": ("from fxh import (\n    Other,  # the odd one out\n    DD,\n)", "DD.__name__"),
    "from_fxh_Base_then_star": ("from fxh import Base\nfrom fxh import *", "Base.__name__"),
}
ANNOS = [None, None, None, "int", "str", "'Base2'", "float", None, "TV",
         # a long-hand annotation: overwriting it with a short traced type makes the file SHORTER
         "'Dict[str, List[Tuple[int, Optional[Dict[str, List[Tuple[int, Optional[Dict[str, List[Tuple[int, Optional[str]]]]]]]]]]]]'"]
STMTS = ["CONST = 1  # c", "X, Y = 1, 2", "if len('ab') == 2:\n    FLAG = True\nelse:\n    FLAG = False", "try:\n    import json as _j\nexcept ImportError:\n    _j = None",
         "LST = [\n    1,\n    2,  # two\n]", "a = 1; b = 2",
         # multi-line string literals with whitespace-only lines, trailing blanks and tabs (their VALUE is part of the program)
         'TEXT = """\n  top\n    \n  bottom  \n\t\n"""', 'TEXT2 = """first\n \n\tsecond"""  # text',
         # the program's OWN TypedDict class (not one a stub generates), used when the module is imported
         "class Layout(__import__('typing').TypedDict):\n    x: int\nDEFAULT_LAYOUT = Layout(x=1)"]
COMMENTS = ["# a comment", "# another: with punctuation (and parens)", "#!not-a-shebang"]


def traced_types():
    import fxh
    import nmfoo
    import nmpkg.nmutils as pn
    import decimal
    import typing_utils_fx
    return [typing_utils_fx.TU, int, str, List[int], Optional[float], fxh.Base, fxh.D1, Dict[str, fxh.D2], pn.B, nmfoo.Baz, List[fxh.Base],
            ("TD", ("alpha", "beta")), ("TDN", "alpha"), decimal.Decimal, fxh.Other, typing_utils_fx.TU, fxh.Outer, __import__("twinmod").TwinA]


@st.composite
def fspec(draw, name, method=None):
    n = draw(st.integers(0, 3))
    ps = []
    seen = False
    for i in range(n):
        d = draw(st.sampled_from([None, None, "None", "1", "'s'", "(1, 2)"]))
        if d is not None:
            seen = True
        elif seen:
            d = "0"
        ps.append(dict(name="p%d" % i, default=d, anno=draw(st.sampled_from(ANNOS)), traced=draw(st.integers(0, 17))))
        if ps[-1]["traced"] % 6 == 5:
            # a name shaped like a privately mangled one (it is not: it does not start with two underscores)
            ps[-1]["name"] = "_p%d__x" % i
    return dict(name=name, ps=ps, ret_anno=draw(st.sampled_from(ANNOS)), ret_traced=draw(st.integers(1, 17)),
                kwonly=draw(st.booleans()), varargs=draw(st.booleans()), posonly=draw(st.sampled_from([False, False, True])), deco=draw(st.sampled_from([None, None, "deco", "deco2"])),
                style=draw(st.sampled_from(["normal", "normal", "oneline", "multiline"])), nested=draw(st.booleans()),
                inner_comment=draw(st.booleans()), docstring=draw(st.booleans()), use=draw(st.integers(0, 20)),
                flavour=draw(st.sampled_from(["plain", "plain", "plain", "gen", "async"])) if method != "property" else "plain",
                local_import=draw(st.sampled_from([None, None, None, "from fxh import Base as LB", "import fxh", "from decimal import Decimal"])),
                method=method, traced=draw(st.sampled_from([True, True, False])))


@st.composite
def source(draw):
    imps = draw(st.lists(st.sampled_from(sorted(IMPORTS)), max_size=4, unique=True))
    nitems = draw(st.integers(1, 5))
    items = []
    fi = 0
    for j in range(nitems):
        kind = draw(st.sampled_from(["func", "func", "class", "stmt", "comment"]))
        if kind == "func":
            items.append(["func", draw(fspec("f%d" % fi))])
            fi += 1
        elif kind == "class":
            ms = []
            for m in range(draw(st.integers(1, 3))):
                ms.append(draw(fspec("m%d" % m, method=draw(st.sampled_from(["method", "method", "classmethod", "staticmethod", "property"])))))
            items.append(["class", dict(name="K%d" % j, methods=ms, class_stmt=draw(st.booleans()), doc=draw(st.booleans()))])
        elif kind == "stmt":
            items.append(["stmt", draw(st.integers(0, len(STMTS) - 1))])
        else:
            items.append(["comment", draw(st.integers(0, len(COMMENTS) - 1))])
    if draw(st.integers(0, 6)) == 0:
        # the source imports `Outer` from one module (used at runtime) while the traces bring `Outer` of ANOTHER module and a
        # further class of the first module into the stub
        fs = [it for kind, it in items if kind == "func"] + [m for kind, it in items if kind == "class" for m in it["methods"] if m["method"] != "property"]
        if fs:
            if "from_twinmod_Outer" not in imps:
                imps = imps[:3] + ["from_twinmod_Outer"]
            f0 = fs[0]
            f0["traced"] = True
            f0["ret_traced"] = 16
            if f0["ps"]:
                f0["ps"][0]["traced"] = 17
            else:
                f0["ps"] = [dict(name="p0", default=None, anno=None, traced=17)]
    if "from_twinmod_Outer_as" in imps and "from_twinmod_Outer" not in imps:
        fs = [it for kind, it in items if kind == "func"] + [m for kind, it in items if kind == "class" for m in it["methods"] if m["method"] != "property"]
        if fs:
            f0 = fs[0]
            f0["traced"] = True
            if f0["ps"]:
                f0["ps"][0]["traced"] = 17
            else:
                f0["ps"] = [dict(name="p0", default=None, anno=None, traced=17)]
    if "import_json_as_nmfoo" in imps:
        # ... and the traces do bring a class of that module into the stub
        fs = [it for kind, it in items if kind == "func"] + [m for kind, it in items if kind == "class" for m in it["methods"] if m["method"] != "property"]
        if fs:
            fs[-1]["traced"] = True
            fs[-1]["ret_traced"] = 9
    return dict(doc=draw(st.booleans()), future=draw(st.sampled_from([None, None, "from __future__ import annotations", "from __future__ import division"])),
                lead_comment=draw(st.booleans()), imports=imps, import_after_code=draw(st.sampled_from([None, None, "from_nmfoo", "import_os"])),
                tc_block=draw(st.sampled_from([None, None, "from fxh import Other", "import nmfoo"])),
                tc_try=draw(st.sampled_from([False, False, False, True])), main_guard=draw(st.booleans()), items=items,
                rel_import=draw(st.sampled_from(["from .shapes import Square", "from .shapes import Square", "from . import shapes", "from .shapes import Square as Sq", None])))


def _sig(f, recv, runtime_exprs):
    parts = [recv] if recv else []

    def fmt(p):
        s = p["name"]
        if p["anno"]:
            s += ": " + p["anno"]
        if p["default"] is not None:
            s += (" = " if p["anno"] else "=") + p["default"]
        return s

    ps = list(f["ps"])
    if f["method"] == "property":
        ps = []
    pos = ps[:-1] if (f["kwonly"] and ps) else ps
    kw = ps[-1:] if (f["kwonly"] and ps) else []
    if f.get("posonly") and pos:
        parts += [fmt(pos[0]), "/"] + [fmt(p) for p in pos[1:]]
    else:
        parts += [fmt(p) for p in pos]
    if f["varargs"] and f["method"] != "property":
        parts.append("*rest")
    elif kw:
        parts.append("*")
    for p in kw:
        q = dict(p)
        parts.append(fmt(q))
    return parts


def _func_lines(f, ind, recv, runtime_exprs):
    parts = _sig(f, recv, runtime_exprs)
    ret = (" -> " + f["ret_anno"]) if f["ret_anno"] else ""
    a = "async " if f["flavour"] == "async" else ""
    use = runtime_exprs[f["use"] % len(runtime_exprs)] if runtime_exprs else None
    pnames = [p["name"] for p in f["ps"]] if f["method"] != "property" else []
    val = "[" + ", ".join(pnames + ([use] if use else []) + ["%r" % f["name"]]) + "]"
    L = []
    if f["method"] in ("classmethod", "staticmethod", "property"):
        L.append(f"{ind}@{f['method']}")
    if f["deco"]:
        L.append(f"{ind}@{f['deco']}")
    if f["style"] == "oneline" and not f["nested"] and not f["docstring"] and not f["local_import"] and f["flavour"] != "gen":
        L.append(f"{ind}{a}def {f['name']}({', '.join(parts)}){ret}: return {val}")
        return L
    if f["style"] == "multiline" and parts:
        L.append(f"{ind}{a}def {f['name']}(")
        for p in parts:
            L.append(f"{ind}        {p},")
        L.append(f"{ind}){ret}:")
    else:
        L.append(f"{ind}{a}def {f['name']}({', '.join(parts)}){ret}:")
    b = ind + "    "
    if f["docstring"]:
        if f["use"] % 3 == 0:
            # a multi-line docstring with a whitespace-only line and trailing blanks
            L.append(f'{b}"""doc of {f["name"]}.\n{b}    \n{b}  indented  \n\t\n{b}"""')
        else:
            L.append(f'{b}"""doc of {f["name"]}."""')
    if f["inner_comment"]:
        L.append(f"{b}# inner comment of {f['name']}")
    if f["local_import"]:
        L.append(f"{b}{f['local_import']}")
    if f["nested"]:
        L.append(f"{b}def helper(q, r: int = 2):")
        L.append(f"{b}    return q  # helper")
        L.append(f"{b}x: int = helper(3)")
    if f["flavour"] == "gen":
        L.append(f"{b}yield {val}")
    else:
        L.append(f"{b}return {val}  # ret")
    return L


PKG_SHAPES = "class Square:\n    pass\n\n\nclass Circle:\n    pass\n\n\nclass Tri:\n    pass\n"


def render(spec, pkg=False):
    L = []
    if spec["doc"]:
        L.append('"""Module docstring."""' if not spec["lead_comment"] else '"""Module docstring.\n\n    indented\n    \n  \nend\n"""')
    if spec["lead_comment"]:
        L.append("# leading comment")
    if spec["future"]:
        L.append(spec["future"])
    runtime = []
    for k in spec["imports"]:
        line, expr = IMPORTS[k]
        L.append(line + ("  # trailing" if k.endswith("fxh") else ""))
        if expr:
            runtime.append(expr)
    if pkg and spec.get("rel_import"):
        # the module lives in a package and imports a sibling module relatively; the traced types include that sibling's classes
        L.append(spec["rel_import"])
        runtime.append({"from .shapes import Square": "Square.__name__", "from . import shapes": "shapes.Tri.__name__",
                        "from .shapes import Square as Sq": "Sq.__name__"}[spec["rel_import"]])
    if spec["tc_try"]:
        L += ["try:", "    from typing import TYPE_CHECKING", "except ImportError:", "    TYPE_CHECKING = False"]
    if spec["tc_block"]:
        if not spec["tc_try"] and "from_typing_tc" not in spec["imports"]:
            L.append("from typing import TYPE_CHECKING")
        L += ["if TYPE_CHECKING:", "    " + spec["tc_block"]]
    if '"TV"' in __import__("json").dumps(spec["items"]):
        # a type variable bound through an attribute of the typing module (not by a bare `TypeVar(...)` call)
        L += ["", "TV = __import__('typing').TypeVar('TV')"]
    L += ["", "class Base2:", "    pass", "", "def deco(f):", "    return f", "", "def deco2(f):", "    f.marked = True", "    return f", ""]
    late = spec["import_after_code"]
    for kind, it in spec["items"]:
        if kind == "func":
            L += _func_lines(it, "", None, runtime) + [""]
        elif kind == "class":
            L.append(f"class {it['name']}:")
            if it["doc"]:
                L.append('    """class doc."""')
            if it["class_stmt"]:
                L.append("    attr = 1  # class attribute")
            for m in it["methods"]:
                recv = {"classmethod": "cls", "staticmethod": None}.get(m["method"], "self")
                L += _func_lines(m, "    ", recv, runtime) + [""]
        elif kind == "stmt":
            L += STMTS[it].split("\n") + [""]
        else:
            L.append(COMMENTS[it])
        if late:
            line, expr = IMPORTS[late]
            if late not in spec["imports"]:
                L.append(line)
                if expr:
                    runtime.append(expr)
            late = None
    if spec["main_guard"]:
        L += ['if __name__ == "__main__":', "    print('main')"]
    return "\n".join(L) + "\n"


def resolve_type(idx, k, pkg_types=None):
    if pkg_types and idx % len(traced_types()) in (5, 6, 9, 13):
        # classes of the sibling module the source imports relatively: Circle, Square (the one `from .shapes import Square` binds), Tri
        return pkg_types[{5: 0, 6: 1, 9: 1, 13: 2}[idx % len(traced_types())]]
    t = traced_types()[idx % len(traced_types())]
    if isinstance(t, tuple):
        if k == 0:
            return Dict[str, int]
        if t[0] == "TD":
            return make_typed_dict(required_fields={n: int for n in t[1]})
        import fxh
        return List[make_typed_dict(required_fields={t[1]: fxh.Base})]
    return t


def functions(spec):
    for kind, it in spec["items"]:
        if kind == "func":
            yield (), it
        elif kind == "class":
            for m in it["methods"]:
                yield (it["name"],), m


def live(mod, path, f):
    o = mod
    for p in path:
        o = getattr(o, p)
    if not path:
        return getattr(mod, f["name"])
    raw = o.__dict__[f["name"]]
    return raw.__func__ if f["method"] in ("classmethod", "staticmethod") else (raw.fget if f["method"] == "property" else raw)


def traces_for(mod, spec, k, pkg_types=None):
    out = []
    for path, f in functions(spec):
        if not f["traced"]:
            continue
        fn = live(mod, path, f)
        at = {}
        if f["method"] != "property":
            for p in f["ps"]:
                t = resolve_type(p["traced"], k, pkg_types) if p["traced"] else None
                if t is not None:
                    at[p["name"]] = t
        rt = resolve_type(f["ret_traced"], k, pkg_types)
        if f["flavour"] == "gen":
            out.append(CallTrace(fn, at, None, rt))
        else:
            out.append(CallTrace(fn, at, rt, None))
    return out


def workload(ns, spec):
    """call everything with simple arguments; returns a list of (name, outcome) comparable across module versions"""
    out = []
    for path, f in functions(spec):
        try:
            if not path:
                target = ns[f["name"]]
            else:
                K = ns[path[0]]
                if f["method"] == "property":
                    out.append((path, f["name"], repr(getattr(K(), f["name"]))))
                    continue
                target = getattr(K, f["name"]) if f["method"] in ("classmethod", "staticmethod") else getattr(K(), f["name"])
            args = [i for i, p in enumerate(f["ps"][:-1] if f["kwonly"] and f["ps"] else f["ps"])]
            kw = {f["ps"][-1]["name"]: 9} if f["kwonly"] and f["ps"] else {}
            r = target(*args, **kw)
            if f["flavour"] == "gen":
                r = list(r)
            elif f["flavour"] == "async":
                try:
                    r.send(None)
                except StopIteration as s:
                    r = s.value
            out.append((path, f["name"], repr(r)))
        except Exception as e:
            out.append((path, f["name"], "EXC:" + type(e).__name__ + ":" + str(e)[:80]))
    return out


# ---- eraser-and-diff ------------------------------------------------------------------------------
def import_aliases(tree):
    import collections
    out = collections.Counter()
    for n in ast.walk(tree):
        if isinstance(n, ast.Import):
            for a in n.names:
                out[("import", None, a.name, a.asname, 0)] += 1
        elif isinstance(n, ast.ImportFrom):
            for a in n.names:
                out[("from", n.module, a.name, a.asname, n.level)] += 1
    return out


class Eraser(ast.NodeTransformer):
    def __init__(self, drop_aliases, drop_td_classes):
        import collections
        self.drop = collections.Counter(drop_aliases)
        self.td = drop_td_classes

    def _args(self, a):
        for x in a.posonlyargs + a.args + a.kwonlyargs + ([a.vararg] if a.vararg else []) + ([a.kwarg] if a.kwarg else []):
            x.annotation = None

    def visit_FunctionDef(self, n):
        self._args(n.args)
        n.returns = None
        self.generic_visit(n)
        return n

    visit_AsyncFunctionDef = visit_FunctionDef

    def _imp(self, n, key):
        keep = []
        for a in n.names:
            k = key(a)
            if self.drop[k] > 0:
                self.drop[k] -= 1
            else:
                keep.append(a)
        if not keep:
            return None
        n.names = keep
        return n

    def visit_Import(self, n):
        return self._imp(n, lambda a: ("import", None, a.name, a.asname, 0))

    def visit_ImportFrom(self, n):
        return self._imp(n, lambda a: ("from", n.module, a.name, a.asname, n.level))

    def visit_ClassDef(self, n):
        if self.td and n.name in self.td:
            return None
        self.generic_visit(n)
        return n

    def visit_If(self, n):
        self.generic_visit(n)
        if isinstance(n.test, ast.Name) and n.test.id == "TYPE_CHECKING" and not n.orelse and all(isinstance(b, ast.Pass) for b in n.body):
            return None  # a TYPE_CHECKING block left with nothing (or only `pass`) after the imports were erased
        if not n.body:
            n.body = [ast.Pass()]
        return n


def erase(src, drop_aliases=(), td=()):
    t = ast.parse(src)
    t = Eraser(drop_aliases, set(td)).visit(t)
    ast.fix_missing_locations(t)
    return ast.dump(t, include_attributes=False)


def erased_diff(orig, result, td_names):
    a0, a1 = import_aliases(ast.parse(orig)), import_aliases(ast.parse(result))
    added = a1 - a0
    removed = a0 - a1
    e0 = erase(orig)
    e1 = erase(result, added, td_names)
    return e0 == e1, added, removed


def comments(src):
    return [t.string for t in tokenize.generate_tokens(io.StringIO(src).readline) if t.type == tokenize.COMMENT]


import re as _re
_QUAL = _re.compile(r"\b(?:fxh|fx|nmpkg\.nmutils|nmfoo|twinmod|typing_utils_fx|typing|decimal|mypy_extensions|mtv_pk\w+\.shapes|shapes)\.")


def norm_anno(text):
    return _QUAL.sub("", text).replace('"', "'")


def annotations(src):
    """{(class path, function, position): annotation source} for every def in the module (nested defs by path)"""
    out = {}

    def visit(body, path):
        for n in body:
            if isinstance(n, (ast.FunctionDef, ast.AsyncFunctionDef)):
                a = n.args
                for x in a.posonlyargs + a.args + a.kwonlyargs + ([a.vararg] if a.vararg else []) + ([a.kwarg] if a.kwarg else []):
                    if x.annotation is not None:
                        out[(path, n.name, x.arg)] = norm_anno(ast.unparse(x.annotation))
                if n.returns is not None:
                    out[(path, n.name, "return")] = norm_anno(ast.unparse(n.returns))
                visit(n.body, path + (n.name + "()",))
            elif isinstance(n, ast.ClassDef):
                visit(n.body, path + (n.name,))

    visit(ast.parse(src).body, ())
    return out
