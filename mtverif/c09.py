"""C09 - the trace store returns exactly what was added: deduplicated, filtered, bounded; batches atomic."""
import itertools
import logging
import multiprocessing
import os
import shutil
import signal
import sqlite3
import tempfile

import hypothesis
from hypothesis import strategies as st
from hypothesis.stateful import RuleBasedStateMachine, precondition, rule, run_state_machine_as_test

from monkeytype.db.sqlite import SQLiteStore, create_call_trace_table
from monkeytype.encoding import CallTraceRow
from monkeytype.tracing import CallTrace

from . import core

LEVEL = "fault_enumeration"
RULE = ("histories: Hypothesis rule-based state machine over one database file with up to 3 open SQLiteStores (add batch / "
        "filter(module, prefix, limit) / list_modules / reopen / open another store), names from an alphabet that collides "
        "under case folding and SQL wildcards, batches with duplicates and unserialisable traces, model = Python set of rows; "
        "plus exhaustive enumeration of short histories. Crash points: for each batch size, EVERY SQLite VM step of the "
        "insert is aborted once through the progress handler and once by SIGKILL of a forked writer; afterwards integrity, "
        "earlier batches, all-or-nothing and usability are checked through an independent connection. Schedules: writer B "
        "run from inside writer A's progress handler at every step; 2..16 free-running writer processes. Non-trivial: add "
        "followed by a filter whose prefix collides by case/wildcard with a stored name or a reopen after an add; a crash "
        "point strictly inside a batch; distinct by digest of the history / (batch size, step).")
ASSUMPTIONS = ["when limit < d any `limit` distinct matching rows are accepted", "after a fault the batch may be fully present even if add() raised (abort on the final COMMIT step)",
               "free-running process schedules are sampled, not controlled"]

logging.getLogger("monkeytype").addHandler(logging.NullHandler())
logging.getLogger("monkeytype").propagate = False

MODULES = ["m", "M", "m.sub", "m_x", "mXx"]
QUALNAMES = ["my_func", "myXfunc", "MY_FUNC", "Foo.bar", "foo", "Foo", "a%b", "aXXb", "a_b", "ab",
             # metacharacters of other pattern languages (GLOB character classes / wildcards, regex)
             "Model[int].validate", "Modeli.validate", "a*b", "a?b", "a.b"]
ARGS = [{}, {"a": int}, {"a": str}]
RETS = [None, int, type(None)]
_funcs = {}


def func(module, qualname):
    key = (module, qualname)
    if key not in _funcs:
        def f():
            pass
        f.__module__ = module
        f.__qualname__ = qualname
        _funcs[key] = f
    return _funcs[key]


def mk_trace(ts):
    module, qualname, ai, ri, yi, bad = ts
    if bad:
        return CallTrace(func(module, qualname), {"a": object()}, None, None)  # cannot be serialised
    return CallTrace(func(module, qualname), dict(ARGS[ai]), RETS[ri], RETS[yi])


def row_of(ts):
    r = CallTraceRow.from_trace(mk_trace(ts))
    return (r.module, r.qualname, r.arg_types, r.return_type, r.yield_type)


trace_specs = st.tuples(st.sampled_from(MODULES), st.sampled_from(QUALNAMES), st.integers(0, 2), st.integers(0, 2), st.sampled_from([0, 0, 1]),
                        st.sampled_from([False] * 6 + [True])).map(list)
PREFIXES = sorted({q[:i] for q in QUALNAMES for i in range(0, len(q) + 1)} | {"%", "_", "my_", "MY", "f", "F", "a%", "a_", "*", "?", "[", "Model[", "a*", "a?", "a."})


class Sim:
    """the store under test + the reference model; every op is a JSON-able list"""

    def __init__(self, ctx, dirpath, use_make_store=True):
        self.ctx = ctx
        self.path = os.path.join(dirpath, "db.sqlite3")
        if os.path.exists(self.path):
            os.unlink(self.path)
        self.stores = []
        self.model = set()
        self.ops = []
        self.flags = set()
        self.use_make_store = use_make_store
        if not use_make_store:
            # the stores of this history are built with the public constructor on a plain sqlite3 connection (as the
            # repository's own fixtures and embedding applications do), not through make_store
            self.ops.append(["mode", "public-constructor"])
        self.open()

    def _new(self):
        if self.use_make_store:
            return SQLiteStore.make_store(self.path)
        conn = sqlite3.connect(self.path)
        create_call_trace_table(conn)
        return SQLiteStore(conn)

    def open(self):
        self.stores.append(self._new())

    def close(self):
        for s in self.stores:
            try:
                s.conn.close()
            except Exception:
                pass

    def fail(self, sig, msg):
        self.ctx.fail(sig, list(self.ops), msg + f"\nhistory: {self.ops}")

    def do(self, op):
        self.ops.append(op)
        kind = op[0]
        if kind == "open":
            if len(self.stores) < 3:
                self.open()
        elif kind == "reopen":
            i = op[1] % len(self.stores)
            self.stores[i].conn.close()
            self.stores[i] = self._new()
            if self.model:
                self.flags.add("reopen-after-add")
        elif kind == "add":
            s = self.stores[op[1] % len(self.stores)]
            try:
                s.add([mk_trace(ts) for ts in op[2]])
            except Exception as e:
                return self.fail(f"C09/add-raises:{type(e).__name__}", f"add({op[2]}) raised {e!r}")
            for ts in op[2]:
                if not ts[5]:
                    self.model.add(row_of(ts))
            if any(ts[5] for ts in op[2]) and any(not ts[5] for ts in op[2]):
                self.flags.add("batch-with-unserialisable-trace")
        elif kind == "filter":
            s = self.stores[op[1] % len(self.stores)]
            m, p, n = op[2], op[3], op[4]
            try:
                got = [(r.module, r.qualname, r.arg_types, r.return_type, r.yield_type) for r in s.filter(m, p, n)]
            except Exception as e:
                return self.fail(f"C09/filter-raises:{type(e).__name__}", f"filter({m!r}, {p!r}, {n}) raised {e!r}")
            want = {r for r in self.model if r[0] == m and (p is None or r[1].startswith(p))}
            if p and any(r[0] == m and not r[1].startswith(p) and (r[1].lower().startswith(p.lower()) or "%" in p or "_" in p) for r in self.model):
                self.flags.add("prefix-collides-by-case-or-wildcard")
            if len(set(got)) != len(got):
                return self.fail("C09/duplicate-rows-returned", f"filter({m!r}, {p!r}, {n}) returned duplicates: {got}")
            bad = [r for r in got if r not in want]
            if bad:
                wrongmod = [r for r in bad if r[0] != m]
                if wrongmod:
                    return self.fail("C09/row-of-other-module-returned", f"filter({m!r}, {p!r}, {n}) returned {wrongmod}")
                notprefix = [r for r in bad if r in self.model]
                if notprefix:
                    return self.fail("C09/row-not-matching-prefix-returned", f"filter({m!r}, {p!r}, {n}) returned {[r[1] for r in notprefix]}")
                return self.fail("C09/row-never-added-returned", f"filter({m!r}, {p!r}, {n}) returned {bad}")
            if len(got) != min(n, len(want)):
                return self.fail("C09/wrong-number-of-rows", f"filter({m!r}, {p!r}, {n}) returned {len(got)} rows, {len(want)} distinct rows match (expected min(n, d) = {min(n, len(want))})")
        elif kind == "age":
            # rows committed on earlier calendar days: shift the stored timestamps of every other row back through an
            # independent connection (the store only ever writes `now`; the clock is not ours to move)
            con = sqlite3.connect(self.path)
            con.execute("UPDATE monkeytype_call_traces SET created_at = datetime(created_at, ?) WHERE rowid % 2 == ?", (f"-{op[1]} day", op[2] % 2))
            con.commit()
            con.close()
            if self.model:
                self.flags.add("rows-from-several-days")
        elif kind == "list":
            s = self.stores[op[1] % len(self.stores)]
            got = s.list_modules()
            want = {r[0] for r in self.model if r[0]}
            if set(got) != want or len(got) != len(set(got)):
                return self.fail("C09/module-listing-wrong", f"list_modules() = {got}, modules with rows: {sorted(want)}")


def make_machine(ctx, dirpath):
    class Machine(RuleBasedStateMachine):
        def __init__(self):
            super().__init__()
            self.sim = Sim(ctx, dirpath, use_make_store=True)

        @rule(si=st.integers(0, 2), batch=st.lists(trace_specs, max_size=6), dup=st.booleans())
        def add(self, si, batch, dup):
            if dup and batch:
                # an exact duplicate and near-duplicates that differ in one column only (yield, return, arguments)
                b0 = batch[0]
                batch = batch + [b0, b0[:4] + [1 - b0[4]] + b0[5:], b0[:3] + [(b0[3] + 1) % 3] + b0[4:], b0[:2] + [(b0[2] + 1) % 3] + b0[3:]]
            self.sim.do(["add", si, batch])

        @rule(si=st.integers(0, 2), data=st.data(), n=st.sampled_from([0, 1, 2, 3, 5, 8, 2000]))
        def filter(self, si, data, n):
            rows = sorted(self.sim.model, key=repr)
            if rows and data.draw(st.integers(0, 9)) < 7:
                r = data.draw(st.sampled_from(rows))
                m = r[0]
                q = r[1]
                variant = data.draw(st.sampled_from(["prefix", "case", "wild", "full", "none"]))
                cut = data.draw(st.integers(0, len(q)))
                p = {"prefix": q[:cut], "case": q[:cut].swapcase(), "wild": q[:cut].replace("X", "_").replace("%", "_") or "_", "full": q, "none": None}[variant]
                if variant == "wild" and cut > 1:
                    p = q[: cut - 1] + "%"
            else:
                m = data.draw(st.sampled_from(MODULES))
                p = data.draw(st.one_of(st.none(), st.sampled_from(PREFIXES)))
            self.sim.do(["filter", si, m, p, n])

        @rule(si=st.integers(0, 2))
        def list_modules(self, si):
            self.sim.do(["list", si])

        @precondition(lambda self: len(self.sim.ops) % 5 == 4)
        @rule(si=st.integers(0, 2))
        def reopen(self, si):
            self.sim.do(["reopen", si])

        @precondition(lambda self: len(self.sim.model) > 0 and len(self.sim.ops) % 4 == 3)
        @rule(days=st.integers(1, 3), parity=st.integers(0, 1))
        def age(self, days, parity):
            self.sim.do(["age", days, parity])

        @precondition(lambda self: len(self.sim.stores) < 3)
        @rule()
        def open_new(self):
            self.sim.do(["open"])

        def teardown(self):
            nt = bool(self.sim.flags & {"prefix-collides-by-case-or-wildcard", "reopen-after-add"})
            ctx.case(self.sim.ops, nt, ["history"] + sorted(self.sim.flags) + ["ops:" + o[0] for o in self.sim.ops])
            self.sim.close()

    return Machine


def replay_ops(ctx, ops, dirpath):
    direct = bool(ops) and ops[0] == ["mode", "public-constructor"]
    sim = Sim(ctx, dirpath, use_make_store=not direct)
    try:
        for op in ops[1:] if direct else ops:
            sim.do(op)
    finally:
        sim.close()


def exhaustive_histories(ctx, dirpath, length):
    """all histories add*(length-1) ; filter over a reduced alphabet"""
    T = [["m", "my_func", 0, 0, 0, False], ["m", "myXfunc", 0, 0, 0, False], ["m", "MY_FUNC", 1, 1, 0, False], ["M", "my_func", 0, 0, 0, False],
         ["m", "a%b", 0, 0, 0, False], ["m", "aXXb", 0, 0, 0, False], ["m", "my_func", 0, 0, 0, True]]
    batches = [[t] for t in T] + [[T[0], T[0]], [T[0], T[6], T[1]], []]
    filters = [("m", "my_func", 2000), ("m", "my_", 2000), ("m", "MY", 2000), ("m", "a%", 2000), ("m", None, 1), ("m", "a_", 2000), ("M", "", 2000), ("m", "my_func", 1)]
    idx = 0
    for adds in itertools.product(range(len(batches)), repeat=length - 1):
        idx += 1
        if idx % ctx.nshards != ctx.shard:
            continue
        sim = Sim(ctx, dirpath, use_make_store=(idx // max(1, ctx.nshards)) % 2 == 0)
        try:
            for j, b in enumerate(adds):
                sim.do(["add", j, batches[b]])
                if j == 0 and length > 2:
                    sim.do(["reopen", 0])
            for m, p, n in filters:
                sim.do(["filter", 0, m, p, n])
            sim.do(["list", 0])
            ctx.case(sim.ops, True, ["exhaustive-history"])
        except core.Violation as v:
            ctx.record_violation(v.signature, v.spec, v.message)
        finally:
            sim.close()


# ---- crash points -----------------------------------------------------------------------------
def batch_specs(tag, size):
    return [["m", f"f{tag}_{i}", i % 3, 0, 0, False] for i in range(size)]


def count_rows(path):
    con = sqlite3.connect(path)
    try:
        integrity = con.execute("PRAGMA integrity_check").fetchall()
        rows = con.execute("select qualname from monkeytype_call_traces").fetchall()
    finally:
        con.close()
    return integrity, [r[0] for r in rows]


def crash_points(ctx, dirpath, sizes, kill):
    for size, prior, mk in itertools.product(sizes, (0, 2), (True, False)):
        path = os.path.join(dirpath, f"crash_{size}_{prior}_{mk}.sqlite3")

        def fresh():
            if os.path.exists(path):
                os.unlink(path)
            for suffix in ("-journal", "-wal", "-shm"):
                if os.path.exists(path + suffix):
                    os.unlink(path + suffix)
            s = SQLiteStore.make_store(path)
            for b in range(prior):
                s.add([mk_trace(t) for t in batch_specs(f"p{b}", 2)])
            s.conn.close()

        def the_batch():
            # with earlier batches in the store the interrupted batch also REPEATS one of their rows (a re-run of the program)
            return [mk_trace(t) for t in batch_specs("x", size) + (batch_specs("p0", 2)[:1] if prior else [])]

        def open_store():
            if mk:
                return SQLiteStore.make_store(path)
            conn = sqlite3.connect(path)
            return SQLiteStore(conn)

        fresh()
        s = open_store()
        steps = [0]
        s.conn.set_progress_handler(lambda: steps.__setitem__(0, steps[0] + 1) or 0, 1)
        s.add(the_batch())
        s.conn.close()
        N = steps[0]
        prior_names = {f"fp{b}_{i}" for b in range(prior) for i in range(2)}
        batch_names = {f"fx_{i}" for i in range(size)}
        for n in range(1, N + 2):
            for mode in ("abort", "kill") if kill else ("abort",):
                if (n + size) % ctx.nshards != ctx.shard:
                    continue
                fresh()
                spec = ["CRASH", size, prior, mk, n, mode]
                raised = None
                if mode == "abort":
                    s = open_store()
                    c = [0]

                    def h():
                        c[0] += 1
                        return 1 if c[0] == n else 0
                    s.conn.set_progress_handler(h, 1)
                    retry_lost = None
                    try:
                        s.add(the_batch())
                    except sqlite3.Error as e:
                        raised = e
                    except Exception as e:
                        ctx.fail(f"C09/add-raises:{type(e).__name__}", spec, repr(e), raise_=False)
                        continue
                    finally:
                        if raised is not None and n % 2 == 0:
                            # the retry a flush performs after a failed write: the same rows, the same store object
                            try:
                                s.conn.set_progress_handler(None, 1)
                                s.add(the_batch())
                                # seen through an INDEPENDENT connection, before the writer reads anything back: a batch that
                                # add() returned for is committed, not parked in a transaction the failed write left open
                                _, names_retry = count_rows(path)
                                got_retry = {x for x in names_retry if x.startswith("fx_")}
                                if got_retry != {f"fx_{i}" for i in range(size)}:
                                    retry_lost = sorted({f"fx_{i}" for i in range(size)} - got_retry)
                                got_retry = {r.qualname for r in s.filter("m", "fx_", 100)}
                                if retry_lost is None and got_retry != {f"fx_{i}" for i in range(size)}:
                                    retry_lost = sorted({f"fx_{i}" for i in range(size)} - got_retry)
                            except Exception as e:
                                retry_lost = repr(e)
                        try:
                            s.conn.close()
                        except Exception:
                            pass
                    if retry_lost is not None:
                        ctx.fail("C09/retry-after-failed-write-loses-rows", spec, f"add aborted at step {n}, then the same batch added again through the same store: missing {retry_lost}", raise_=False)
                        continue
                    if raised is not None and n % 2 == 0:
                        ctx.case(spec + ["retry"], True, ["crash:abort+retry"])
                        continue
                else:
                    pid = os.fork()
                    if pid == 0:
                        try:
                            s = open_store()
                            c = [0]

                            def h2():
                                c[0] += 1
                                if c[0] == n:
                                    os.kill(os.getpid(), signal.SIGKILL)
                                return 0
                            s.conn.set_progress_handler(h2, 1)
                            s.add(the_batch())
                        finally:
                            os._exit(0)
                    os.waitpid(pid, 0)
                integrity, names = count_rows(path)
                inside = 1 < n <= N and size > 1
                ctx.case(spec, inside, [f"crash:{mode}", f"batch-size={size}"])
                if integrity != [("ok",)]:
                    ctx.fail("C09/database-corrupt-after-interruption", spec, f"integrity_check: {integrity}", raise_=False)
                    continue
                got = set(names)
                if not prior_names <= got:
                    ctx.fail("C09/committed-batch-lost", spec, f"earlier batches missing rows: {sorted(prior_names - got)}", raise_=False)
                    continue
                part = got & batch_names
                if part and part != batch_names or len([x for x in names if x in batch_names]) not in (0, size):
                    ctx.fail("C09/batch-partially-committed", spec,
                             f"write of a {size}-row batch interrupted at VM step {n}/{N} ({mode}): {len(part)} of its rows are in the database", raise_=False)
                    continue
                # still usable
                try:
                    s2 = open_store()
                    s2.add([mk_trace(t) for t in batch_specs("after", 1)])
                    ok = len(s2.filter("m", "fafter", 10)) == 1
                    s2.conn.close()
                    if not ok:
                        ctx.fail("C09/store-unusable-after-interruption", spec, "add+filter after the interruption did not return the new row", raise_=False)
                except Exception as e:
                    ctx.fail("C09/store-unusable-after-interruption", spec, repr(e), raise_=False)


# ---- schedules ----------------------------------------------------------------------------------
def paused_writer(ctx, dirpath, size):
    """writer B (own connection) runs add or filter from inside writer A's progress handler at every step"""
    path = os.path.join(dirpath, f"paused_{size}.sqlite3")

    def fresh():
        if os.path.exists(path):
            os.unlink(path)
        SQLiteStore.make_store(path).conn.close()

    fresh()
    a = SQLiteStore.make_store(path)
    steps = [0]
    a.conn.set_progress_handler(lambda: steps.__setitem__(0, steps[0] + 1) or 0, 1)
    a.add([mk_trace(t) for t in batch_specs("a", size)])
    a.conn.close()
    N = steps[0]
    for n in range(1, N + 1):
        if n % ctx.nshards != ctx.shard:
            continue
        for bop in ("add", "filter"):
            fresh()
            a = SQLiteStore.make_store(path)
            bconn = sqlite3.connect(path, timeout=0.01)
            b = SQLiteStore(bconn)
            seen = {}
            c = [0]

            def h():
                c[0] += 1
                if c[0] == n:
                    try:
                        if bop == "add":
                            b.add([mk_trace(t) for t in batch_specs("b", 2)])
                            seen["b"] = "returned"
                        else:
                            seen["rows"] = [r.qualname for r in b.filter("m", None, 100)]
                    except sqlite3.OperationalError as e:
                        seen["b"] = "raised"
                return 0
            a.conn.set_progress_handler(h, 1)
            spec = ["PAUSED", size, n, bop]
            try:
                a.add([mk_trace(t) for t in batch_specs("a", size)])
            except Exception as e:
                ctx.fail(f"C09/add-raises:{type(e).__name__}", spec, f"writer A: {e!r}", raise_=False)
                continue
            finally:
                a.conn.set_progress_handler(None, 1)
            a.conn.close()
            bconn.close()
            _, names = count_rows(path)
            ctx.case(spec, 1 < n < N, ["schedule:paused-writer", "B:" + bop])
            na = len([x for x in names if x.startswith("fa_")])
            nb = len([x for x in names if x.startswith("fb_")])
            if na != size:
                ctx.fail("C09/batch-partially-committed", spec, f"writer A's batch: {na} of {size} rows after B ran at step {n}", raise_=False)
            if bop == "add":
                want = 2 if seen.get("b") == "returned" else 0
                if nb != want:
                    ctx.fail("C09/batch-partially-committed", spec, f"writer B's add {seen.get('b')} but {nb} of its 2 rows are stored", raise_=False)
            else:
                rows = seen.get("rows")
                if rows is not None and len([x for x in rows if x.startswith("fa_")]) not in (0, size):
                    ctx.fail("C09/reader-saw-partial-batch", spec, f"reader inside A's transaction saw {rows}", raise_=False)


def _batch_size(wid, b):
    return 1 + (wid + b) % 4


def _writer(args):
    if args[0] == "reader":
        return _reader(args)
    path, wid, nb = args
    logging.getLogger("monkeytype").propagate = False
    s = SQLiteStore.make_store(path)
    s.conn.execute("PRAGMA busy_timeout = 20000")
    done = []
    for b in range(nb):
        try:
            s.add([mk_trace(t) for t in batch_specs(f"w{wid}b{b}", _batch_size(wid, b))])
            done.append((b, "returned"))
        except Exception as e:
            done.append((b, "raised:" + type(e).__name__))
    s.conn.close()
    return wid, done


def _reader(args):
    """a concurrent reader: every poll of filter() must show each writer batch completely or not at all, and a batch
    that was visible once stays visible"""
    _, path, polls = args
    logging.getLogger("monkeytype").propagate = False
    s = SQLiteStore.make_store(path)
    s.conn.execute("PRAGMA busy_timeout = 20000")
    bad = []
    seen_whole = set()
    npolls = 0
    for _ in range(polls):
        try:
            names = [r.qualname for r in s.filter("m", "fw", 100000)]
        except sqlite3.OperationalError:
            continue
        npolls += 1
        per = {}
        for x in names:
            tag = x[1:].split("_")[0]
            per[tag] = per.get(tag, 0) + 1
        for tag, cnt in per.items():
            wid, b = tag[1:].split("b")
            if cnt != _batch_size(int(wid), int(b)):
                bad.append(f"poll saw {cnt} of {_batch_size(int(wid), int(b))} rows of batch {tag}")
        gone = seen_whole - set(per)
        if gone:
            bad.append(f"batches visible in an earlier poll vanished: {sorted(gone)}")
        seen_whole |= set(per)
    s.conn.close()
    return "reader", (npolls, len(seen_whole), bad[:5])


def free_running(ctx, dirpath, nproc, rep, readers=0):
    path = os.path.join(dirpath, f"race_{nproc}_{rep}_{readers}.sqlite3")
    SQLiteStore.make_store(path).conn.close()
    mp = multiprocessing.get_context("fork")
    tasks = [(path, w, 1 + (w + rep) % 3) for w in range(nproc)] + [("reader", path, 60)] * readers
    with mp.Pool(nproc + readers) as pool:
        results = pool.map(_writer, tasks, chunksize=1)
    integrity, names = count_rows(path)
    spec = ["RACE", nproc, rep, readers]
    ctx.case(spec, True, ["schedule:free-running", f"processes={nproc}", f"readers={readers}"])
    if integrity != [("ok",)]:
        return ctx.fail("C09/database-corrupt-after-interruption", spec, str(integrity), raise_=False)
    for wid, done in results:
        if wid == "reader":
            npolls, nseen, bad = done
            ctx.extra["race_reader_polls"] = ctx.extra.get("race_reader_polls", 0) + npolls
            if nseen:
                ctx.label("reader-saw-committed-batches")
            if bad:
                ctx.fail("C09/reader-saw-partial-batch", spec, f"a concurrent reader process: {bad}", raise_=False)
            continue
        for b, status in done:
            size = _batch_size(wid, b)
            got = len([x for x in names if x.startswith(f"fw{wid}b{b}_")])
            if status == "returned" and got != size:
                ctx.fail("C09/committed-batch-lost", spec, f"writer {wid} batch {b}: add returned but {got} of {size} rows stored", raise_=False)
            if status != "returned" and got not in (0, size):
                ctx.fail("C09/batch-partially-committed", spec, f"writer {wid} batch {b}: add {status}, {got} of {size} rows stored", raise_=False)


def big_batch(ctx, dirpath, n):
    """one flush of several hundred distinct traces: every one of them is stored"""
    path = os.path.join(dirpath, f"big_{n}.sqlite3")
    s = SQLiteStore.make_store(path)
    specs = [["m", f"big_{i}", i % 3, (i // 3) % 3, (i // 9) % 2, False] for i in range(n)]
    s.add([mk_trace(t) for t in specs])
    s.conn.close()
    s2 = SQLiteStore.make_store(path)
    got = {r.qualname for r in s2.filter("m", "big_", 5000)}
    s2.conn.close()
    spec = ["BIG", n]
    ctx.case(spec, True, ["big-batch"])
    missing = sorted({f"big_{i}" for i in range(n)} - got, key=lambda x: int(x[4:]))
    if missing:
        ctx.fail("C09/committed-batch-lost", spec, f"one add() of {n} distinct traces: {len(missing)} rows missing, e.g. {missing[:5]}", raise_=False)


def big_crash(ctx, dirpath, rows, fraction):
    """a batch far larger than SQLite's page cache (so that uncommitted pages are spilled to the database file before the
    commit), its writer SIGKILLed part-way: the reopened file must be intact and hold exactly the earlier batch"""
    path = os.path.join(dirpath, f"bigcrash_{rows}_{int(fraction * 100)}.sqlite3")
    # the earlier batch spreads over modules a/k/p/z, the big one over m/a/t: its index entries land among committed ones, so
    # pages that hold committed data are modified (and spilled) too
    specs = [[("bc_m", "bc_a", "bc_t")[i % 3], f"g{i % 97}_{i}", i % 3, (i // 3) % 3, 0, False] for i in range(rows)]
    prior_specs = [[("bc_a", "bc_k", "bc_p", "bc_z")[i % 4], f"small_{i}", i % 3, 0, 0, False] for i in range(1200)]

    def fresh():
        for suffix in ("", "-journal", "-wal", "-shm"):
            if os.path.exists(path + suffix):
                os.unlink(path + suffix)
        s0 = SQLiteStore.make_store(path)
        s0.add([mk_trace(t) for t in prior_specs])
        s0.conn.close()

    def child(kill_at, report):
        pid = os.fork()
        if pid == 0:
            try:
                st_ = SQLiteStore.make_store(path)
                c = [0]

                def h():
                    c[0] += 1
                    if kill_at and c[0] == kill_at:
                        os.kill(os.getpid(), signal.SIGKILL)
                    return 0
                st_.conn.set_progress_handler(h, 2000)
                st_.add([mk_trace(t) for t in specs])
                if report:
                    with open(report, "w") as f:
                        f.write(str(c[0]))
            finally:
                os._exit(0)
        os.waitpid(pid, 0)

    fresh()
    rep = path + ".steps"
    child(0, rep)
    total = int(open(rep).read())
    os.unlink(rep)
    fresh()
    kill_at = max(1, int(total * fraction))
    child(kill_at, None)
    spec = ["BIGCRASH", rows, fraction]
    ctx.case(spec, True, ["crash:kill-after-cache-spill", f"batch-size={rows}"])
    try:
        integrity, names = count_rows(path)
    except sqlite3.DatabaseError as e:
        return ctx.fail("C09/database-corrupt-after-interruption", spec, f"writer of a {rows}-row batch killed at {kill_at}/{total}: reading the file raises {e!r}", raise_=False)
    if integrity != [("ok",)]:
        return ctx.fail("C09/database-corrupt-after-interruption", spec, f"writer of a {rows}-row batch killed at {kill_at}/{total}: integrity_check {integrity[:3]}", raise_=False)
    try:
        s2 = SQLiteStore.make_store(path)
        got = set()
        for m in ("bc_a", "bc_k", "bc_p", "bc_z", "bc_m", "bc_t"):
            got |= {r.qualname for r in s2.filter(m, None, 10 ** 7)}
        s2.conn.close()
    except Exception as e:
        return ctx.fail("C09/store-unusable-after-interruption", spec, f"writer killed at {kill_at}/{total}: {e!r}", raise_=False)
    prior = {t[1] for t in prior_specs}
    if not prior <= got:
        return ctx.fail("C09/committed-batch-lost", spec, f"earlier batch: {len(prior - got)} of {len(prior)} rows missing after the kill", raise_=False)
    part = got - prior
    if part and len(part) != rows:
        ctx.fail("C09/batch-partially-committed", spec, f"{len(part)} of {rows} rows of the killed batch are in the file", raise_=False)


def locked_open(ctx, dirpath, hold):
    """the store is opened (make_store) while another connection holds the file's exclusive lock for longer than the busy
    timeout: the open may wait and fail, the committed rows and the file stay where they are"""
    path = os.path.join(dirpath, f"locked_{hold}.sqlite3")
    spec = ["LOCKEDOPEN", hold]
    ctx.case(spec, True, ["open-under-exclusive-lock"])
    s0 = SQLiteStore.make_store(path)
    s0.add([mk_trace(t) for t in batch_specs("lk", 4)])
    s0.conn.close()
    holder = sqlite3.connect(path, timeout=0.1, isolation_level=None)
    holder.execute("BEGIN EXCLUSIVE")
    if hold == "with-uncommitted-rows":
        holder.execute("INSERT INTO monkeytype_call_traces VALUES (datetime('now'), 'm', 'flk_pending', '{}', NULL, NULL)")
    opened = err = None
    try:
        opened = SQLiteStore.make_store(path)
    except sqlite3.Error as e:
        err = e
    except Exception as e:
        holder.execute("ROLLBACK")
        holder.close()
        return ctx.fail(f"C09/open-raises:{type(e).__name__}", spec, repr(e), raise_=False)
    holder.execute("ROLLBACK")
    holder.close()
    if opened is not None:
        opened.conn.close()
    files = sorted(f for f in os.listdir(dirpath) if f.startswith(f"locked_{hold}"))
    integrity, names = count_rows(path)
    want = {f"flk_{i}" for i in range(4)}
    if integrity != [("ok",)] or set(names) != want or files != [f"locked_{hold}.sqlite3"]:
        ctx.fail("C09/committed-batch-lost", spec, f"store opened while another connection held the exclusive lock ({'open failed: %r' % err if err else 'open succeeded'}): "
                 f"the file now holds {sorted(names)} (expected {sorted(want)}); files {files}", raise_=False)


def shard(ctx):
    q = ctx.tier == "quick"
    d = tempfile.mkdtemp(prefix="c09-")
    try:
        M = make_machine(ctx, d)
        for rnd in range(4):
            ctx.last_violation = None
            try:
                run_state_machine_as_test(
                    hypothesis.seed(ctx.shard_seed(rnd))(M),
                    settings=core.hyp_settings(30 if q else 1500, stateful_step_count=25 if q else 40),
                )
                break
            except core.Violation as v:
                ctx.record_violation(v.signature, v.spec, v.message)
            except hypothesis.errors.Flaky:  # noqa
                if ctx.last_violation is None:
                    raise
                ctx.record_violation(*ctx.last_violation)
        exhaustive_histories(ctx, d, 2 if q else 3)
        crash_points(ctx, d, (1, 2, 3) if q else (1, 2, 3, 4, 5, 6), kill=True)
        paused_writer(ctx, d, 2 if q else 4)
        if ctx.shard == 2 % ctx.nshards:
            locked_open(ctx, d, "idle")
        if ctx.shard == 3 % ctx.nshards:
            locked_open(ctx, d, "with-uncommitted-rows")
        if ctx.shard == 0:
            for n in ((450,) if q else (199, 200, 201, 450, 1000, 2500)):
                big_batch(ctx, d, n)
        plan = [(30000, 0.6)] if q else [(30000, 0.3), (30000, 0.6), (30000, 0.9), (60000, 0.5), (60000, 0.95)]
        for j, (rows, frac) in enumerate(plan):
            if ctx.shard == (1 + j) % ctx.nshards:
                big_crash(ctx, d, rows, frac)
    finally:
        shutil.rmtree(d, ignore_errors=True)


def run(ctx):
    core.run_sharded(ctx, __name__, "shard", 8 if ctx.tier == "quick" else 16)
    ctx.extra["crash_points_exhaustive_per_batch_size"] = True
    q = ctx.tier == "quick"
    d = tempfile.mkdtemp(prefix="c09r-")
    try:
        for nproc in ((4, 8) if q else (2, 4, 8, 16)):
            for rep in range(2 if q else 10):
                free_running(ctx, d, nproc, rep, readers=0 if rep % 2 == 0 else min(4, nproc // 2))
    finally:
        shutil.rmtree(d, ignore_errors=True)


def replay(ctx, case):
    d = tempfile.mkdtemp(prefix="c09-")
    try:
        if case and case[0] == "LOCKEDOPEN":
            return locked_open(ctx, d, case[1])
        if case and isinstance(case[0], list):
            replay_ops(ctx, case, d)
        elif case[0] == "CRASH":
            ctx.nshards, ctx.shard = 1, 0
            crash_points(ctx, d, (case[1],), kill=True)
        elif case[0] == "PAUSED":
            ctx.nshards, ctx.shard = 1, 0
            paused_writer(ctx, d, case[1])
        elif case[0] == "RACE":
            free_running(ctx, d, case[1], case[2], case[3] if len(case) > 3 else 0)
        elif case[0] == "BIGCRASH":
            big_crash(ctx, d, case[1], case[2])
        elif case[0] == "BIG":
            big_batch(ctx, d, case[1])
    finally:
        shutil.rmtree(d, ignore_errors=True)
