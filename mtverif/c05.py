"""C05 - inferred types are tight: every alternative witnessed, Any only beside an empty container."""
import random

from . import core, tinfer, vals
from .oracle import NotTight, show, witnessed

LEVEL = "exploration"
RULE = ("same space as C04 (shape-profiled multisets x k, plus the enumerated alphabet); oracle = lock-step "
        "witness walk (strict coverage, every alternative inhabited with its exact head, Any only beside an "
        "observed empty container, required/optional by counting inhabiting dicts, no duplicated alternative). "
        "Non-trivial: >=2 values of different shape, or a dict with k>0, or depth>=2; distinct by digest.")
ASSUMPTIONS = ["tightness is judged before any rewriter runs", "Any at an element position is legitimate iff an empty "
               "container was observed at the enclosing position (DESIGN 3.2)"]


def oracle(ctx, specs, k, rnd, dups):
    vs = [vals.build(s) for s in specs]
    try:
        T = tinfer.infer(vs, k)
    except Exception as e:
        return  # C04 owns termination/crash
    try:
        witnessed(T, vs)
    except NotTight as e:
        return ctx.fail("C05/" + e.kind, [specs, k], f"{e} ; inferred {show(T)} for {specs} (k={k})")
    if vals.has_repeated_container(specs):
        memo = {}
        vsh = [vals.build_shared(s, memo) for s in specs]
        ctx.label("aliased-presentation")
        try:
            Tsh = tinfer.infer(vsh, k)
            witnessed(Tsh, vsh)
        except NotTight as e:
            return ctx.fail("C05/" + e.kind, [specs, k, "aliased"], f"{e} ; inferred {show(Tsh)} for {specs} with equal sub-containers shared as one object (k={k})")
        except Exception:
            pass
    # the merge over call traces (one trace per value), as stub generation performs it
    try:
        vt = [vals.build(s) for s in specs]
        merged = tinfer.infer_via_traces(vt, k)
    except Exception:
        merged = None
    if merged is not None and vs:
        for pos, Tm in zip(("argument", "return", "yield"), merged):
            if Tm is None:
                return ctx.fail("C05/uncovered-value", [specs, k, "via-traces"], f"merged over call traces: the {pos} position, recorded in every trace, has no type at all")
            try:
                witnessed(Tm, vt)
            except NotTight as e:
                return ctx.fail("C05/" + e.kind, [specs, k, "via-traces"], f"{e} ; merged over call traces ({pos} position): {show(Tm)} for {specs} (k={k})")
    if "twin" in repr(specs):
        return  # two classes that print alike cannot both be found again by module + qualname
    # the merge as the pipeline performs it: on per-value types that went through the store encoding
    vs2 = [vals.build(s) for s in specs]
    try:
        Ts, vs2 = tinfer.infer_via_store_kept(vs2, k)
    except Exception:
        return
    if not vs2:
        return
    try:
        witnessed(Ts, vs2)
    except NotTight as e:
        return ctx.fail("C05/" + e.kind, [specs, k, "via-store"], f"{e} ; merged from decoded per-value types: {show(Ts)} for {specs} (k={k})")


def shard(ctx):
    q = ctx.tier == "quick"
    tinfer.run_engine(ctx, oracle, 1500 if q else 15000, 2, 0.25 if q else 1.0)


def run(ctx):
    core.run_sharded(ctx, __name__, "shard", 8 if ctx.tier == "quick" else 16)
    if ctx.tier == "thorough":
        ctx.extra["exhaustive"] = bool(ctx.extra.get("enumeration_complete"))
        core.run_fuzz(ctx, 60000)


def replay(ctx, case):
    oracle(ctx, case[0], case[1], random.Random(0), [1] * 8)
