"""check <ID> [--tier quick|thorough] [--replay file]"""
import argparse
import glob
import importlib
import json
import os
import sys
import time
import traceback

from . import core


def main(argv):
    ap = argparse.ArgumentParser()
    ap.add_argument("pid")
    ap.add_argument("--tier", default=os.environ.get("VERIF_TIER", "quick"), choices=["quick", "thorough"])
    ap.add_argument("--replay", default=None)
    a = ap.parse_args(argv)
    pid = a.pid.upper()
    try:
        seed = int(os.environ.get("VERIF_SEED", "1") or "1")
    except ValueError:
        seed = 1
    t0 = time.time()
    sys.setrecursionlimit(3000)
    try:
        import monkeytype

        mt_file = os.path.realpath(monkeytype.__file__)
        root = os.path.realpath(os.environ.get("VERIF_REPO_ROOT", "/repo")) + "/"
        if not mt_file.startswith(root):
            raise core.HarnessError(f"monkeytype imported from {mt_file}, expected {root}")
        sys.path.insert(0, os.path.join(core.HOME, "fixtures"))
        mod = importlib.import_module("mtverif." + pid.lower())
        ctx = core.Ctx(pid, a.tier, seed)
        files = [a.replay] if a.replay else sorted(glob.glob(os.path.join(core.HOME, "replays", "regress", pid + "-*.json")))
        for path in files:
            with open(path) as f:
                body = json.load(f)
            try:
                mod.replay(ctx, body["case"])
                ctx.label("replayed")
            except core.Violation as v:
                ctx.record_violation(v.signature, v.spec, v.message)
        if not a.replay:
            mod.run(ctx)
        rc = core.finish(ctx, mod.LEVEL, mod.RULE, t0, getattr(mod, "ASSUMPTIONS", ()), None, write_evidence=not a.replay)
    except core.HarnessError as e:
        print(f"HARNESS-ERROR property={pid}: {e}")
        return 2
    except BaseException as e:
        if isinstance(e, SystemExit):
            raise
        print(f"HARNESS-ERROR property={pid}: " + "".join(traceback.format_exception(e)))
        return 2
    return rc


if __name__ == "__main__":
    sys.exit(main(sys.argv[1:]))
