"""C14 - stub content depends only on the set of traces, not their order or process."""
import ast
import io
import typing
import json
import os
import random
import shutil
import subprocess
import sys
import tempfile

from hypothesis import given, strategies as st

from monkeytype import cli
from monkeytype.db.sqlite import SQLiteStore
from monkeytype.db.base import CallTraceStoreLogger
from monkeytype.stubs import StubIndexBuilder, build_module_stubs_from_traces
from monkeytype.tracing import CallTrace
from monkeytype.typing import DEFAULT_REWRITER, NoOpRewriter, get_type

from . import core, oracle, stubread, vals

LEVEL = "exploration"
RULE = ("trace sets of 4..30 traces over 8 functions of a fixture module with 2..8 distinct value shapes per position (incl. "
        "families of same-element tuples of different arity, dict records for TypedDict merging), k in {0,3}, default and no "
        "rewriter (and twin traces that differ only in which parameter had which type, or only in the yield type); presentations: traces passed through the store logger with generated flush points, the incremental StubIndexBuilder queried halfway, permuted rows, duplicated rows, splits into 1..4 batches over 1..3 connections, a row limit "
        "just above the number of distinct traces, and stub generation by the CLI in fresh interpreters with different "
        "PYTHONHASHSEED; plus in-process permutations/duplications through build_module_stubs_from_traces. Oracle: the "
        "canonical stub (functions, decorators, import table, per-position annotation with unions as sets, generated TypedDict "
        "classes) is identical across presentations. Non-trivial: some position has a union of >=3 members or a TypedDict merged "
        "from >=2 traces; distinct by digest of the trace set.")
ASSUMPTIONS = ["hash/address dependent orders are sampled across processes, not controlled",
               "module names without textual overlap and unique parameter names (C11's findings are kept out)"]

FUNCS = {"ident": 1, "second": 2, "boxed": 1, "gen": 2, "gen_ret": 1, "C.m": 1, "C.cm": 1, "C.sm": 1, "pair": 2, "geny": 1}


def live(fname):
    import fx_target as t
    return {"ident": t.ident, "second": t.second, "boxed": t.boxed, "gen": t.gen, "gen_ret": t.gen_ret, "C.m": t.C.m, "pair": t.pair, "geny": t.geny,
            "C.cm": t.C.cm.__func__, "C.sm": t.C.sm}[fname]


tuple_family = st.tuples(st.sampled_from([["lit", 1], ["lit", "s"], ["inst", "D1"]]), st.integers(0, 7)).map(lambda p: ["tuple", [p[0]] * p[1]])
tuple_family1 = st.tuples(st.sampled_from([["lit", 1], ["lit", "s"]]), st.integers(1, 6)).map(lambda p: ["tuple", [p[0]] * p[1]])
record = st.lists(st.tuples(st.sampled_from(["a", "b", "c"]), st.sampled_from([["lit", 0], ["lit", "x"], ["lit", None]])).map(lambda kv: [["lit", kv[0]], kv[1]]),
                  min_size=1, max_size=3, unique_by=lambda kv: kv[0][1]).map(lambda l: ["dict", l])
# sibling fields that each hold a dict under the same key: two generated classes with one name
siblings = st.tuples(record, record).map(lambda p: ["dict", [[["lit", "home"], ["dict", [[["lit", "addr"], p[0]]]]], [["lit", "work"], ["dict", [[["lit", "addr"], p[1]]]]]]])
value = st.one_of(vals.values(1), vals.values(2), tuple_family, tuple_family, record, record, siblings,
                  st.sampled_from([["inst", "D1"], ["inst", "D2"], ["inst", "DD"], ["inst", "Base"], ["inst", "Mixed"]]))
trace_spec = st.tuples(st.sampled_from(sorted(FUNCS)), st.lists(value, min_size=2, max_size=2)).map(list)
# focused sets: one function, every trace drawn from one family (many tuple shapes / many records / many classes at ONE position)
# dicts whose key types stand in a subclass relation (bool / int), and a record that is sometimes None
subkey_dicts = st.sampled_from([["dict", [[["lit", True], ["lit", "s"]]]], ["dict", [[["lit", 1], ["lit", "s"]]]], ["dict", [[["lit", False], ["lit", "t"]], [["lit", True], ["lit", "s"]]]],
                                ["dict", [[["lit", 2], ["lit", "u"]]]], ["dict", [[["lit", 1], ["lit", 1.5]]]]])
record_or_none = st.one_of(record, record, st.just(["lit", None]))
focused_set = st.tuples(st.sampled_from(sorted(FUNCS)), st.sampled_from([tuple_family, tuple_family1, tuple_family1, record, siblings, st.one_of(tuple_family, record), subkey_dicts, record_or_none,
                        st.sampled_from([["inst", c] for c in ["D1", "D2", "DD", "Base", "Mixed", "Other"]] + [["lit", None], ["lit", 1]])])).flatmap(
    lambda p: st.lists(st.lists(p[1], min_size=2, max_size=2), min_size=5, max_size=14).map(lambda vs: [[p[0], v] for v in vs]))
# twins: traces of one function that differ ONLY in which parameter had which type (pair, gen, second) or only in what was
# yielded (geny) - the narrowest ways in which two distinct traces can be mistaken for one
small = st.one_of(vals.values(1), st.sampled_from([["lit", 1], ["lit", "s"], ["lit", None], ["inst", "D1"], ["inst", "D2"]]))
twin_set = st.tuples(st.sampled_from(["pair", "geny", "gen", "second", "pair", "geny"]), st.lists(st.tuples(small, small), min_size=1, max_size=4),
                     st.lists(trace_spec, max_size=6)).map(
    lambda p: [[p[0], [a, b]] for a, b in p[1]] + [[p[0], [b, a] if p[0] != "geny" else [a, a]] for a, b in p[1]] + p[2]
    # ... and, for the generator, the same call once more as one that yielded nothing at all
    + ([[p[0], [a, ["tuple", []]]] for a, b in p[1]] if p[0] == "geny" else []))
# a wide class hierarchy at ONE position under the default chain: more than five classes that share a base, some with multiple
# inheritance (the common-base search must not depend on which member happens to come first)
mi_family = st.tuples(st.sampled_from(sorted(FUNCS)), st.lists(st.sampled_from(["D1", "D2", "DD", "Base", "Mixed", "D3", "D4", "D5", "Mixed2"]), min_size=6, max_size=9, unique=True)).map(
    lambda p: [[p[0], [["inst", c], ["inst", c]]] for c in p[1]])
# the same, inside ONE value: lists holding instances of the hierarchy in different element orders - the traces' types are
# equal as sets of union members but spelled in different member orders, and only the first of two equal traces is kept
_mi_classes = st.lists(st.sampled_from(["D1", "D2", "DD", "Base", "Mixed", "D3", "D4", "D5", "Mixed2"]), min_size=6, max_size=8, unique=True)
mi_lists = st.tuples(st.sampled_from(sorted(FUNCS)), _mi_classes.flatmap(lambda cs: st.lists(st.permutations(cs), min_size=2, max_size=3).filter(lambda ps: ps[0][0] != ps[1][0]))).map(
    lambda p: [[p[0], [["list", [["inst", c] for c in perm]], ["list", [["inst", c] for c in perm]]]] for perm in p[1]])
# ... and a hierarchy in which two common bases come in different MRO orders (MA*: Base before Other; MB*: Other before Base)
_SW = ["MA1", "MA2", "MA3", "MB1", "MB2", "MB3"]
mi_swapped_family = st.tuples(st.sampled_from(sorted(FUNCS)), st.permutations(_SW)).map(lambda p: [[p[0], [["inst", c], ["inst", c]]] for c in p[1]])
mi_swapped_lists = st.tuples(st.sampled_from(sorted(FUNCS)), st.permutations(_SW), st.permutations(_SW)).map(
    lambda p: [[p[0], [["list", [["inst", c] for c in perm]], ["list", [["inst", c] for c in perm]]]] for perm in (sorted(p[1]), sorted(p[2], reverse=True), list(p[1]), list(p[2]))])
trace_sets = st.one_of(mi_family, mi_lists, mi_swapped_family, mi_swapped_lists, st.lists(trace_spec, min_size=4, max_size=24), focused_set, twin_set,
                       st.tuples(focused_set, st.lists(trace_spec, max_size=8)).map(lambda p: p[0] + p[1]))


def _is_mi_list(v):
    return v[0] == "list" and len(v[1]) >= 6 and all(e[0] == "inst" and e[1] in ("D1", "D2", "DD", "Base", "Mixed", "D3", "D4", "D5", "Mixed2", "MA1", "MA2", "MA3", "MB1", "MB2", "MB3") for e in v[1])


def make_trace(ts, k):
    fname, vs = ts
    if all(_is_mi_list(v) for v in vs):
        # List[Union[...]] spelled in THIS value's element order. (`List[u]` is cached by typing on the union's order-insensitive
        # equality and would hand back the first spelling ever made in this process: build the alias uncached.)
        import fxh
        from typing import List, Union
        fn = live(fname)
        names = [n for n in fn.__code__.co_varnames[: fn.__code__.co_argcount] if n not in ("self", "cls")]
        tys = [List.copy_with((Union[tuple(getattr(fxh, e[1]) for e in v[1])],)) for v in vs]
        return CallTrace(fn, {n: t for n, t in zip(names, tys)}, tys[0], None)
    fn = live(fname)
    names = [n for n in fn.__code__.co_varnames[: fn.__code__.co_argcount] if n not in ("self", "cls")]
    vals_ = [vals.build(v) for v in vs]
    at = {n: get_type(v, k) for n, v in zip(names, vals_)}
    if fname == "pair":
        # the result does not depend on the arguments: two traces may differ ONLY in which parameter had which type
        return CallTrace(fn, at, type(None), None)
    if fname == "geny":
        # one traced parameter; the second value is what the generator yielded: traces may differ ONLY in the yield type
        # ... and a call whose second value is the empty tuple stands for a call of the generator that yielded NOTHING (no yield type)
        return CallTrace(fn, {"p_geny": at["p_geny"]}, type(None), None if vs[1] == ["tuple", []] else get_type(vals_[1], k))
    if fname == "gen":
        return CallTrace(fn, at, type(None), get_type(vals_[0], k))
    if fname == "gen_ret":
        return CallTrace(fn, at, get_type(vals_[0], k), get_type(vals_[0], k))
    return CallTrace(fn, at, get_type(vals_[-1 if fname == "second" else 0], k), None)


def canonical(text):
    import fx_target
    import fxh
    # lenient namespace: C14 is about determinism, not about the stub providing its names (C11 owns that)
    ns = dict(vars(typing))
    ns.update(fxh=fxh, fx_target=fx_target)
    ns.update({n: v for n, v in vars(fx_target).items() if not n.startswith("__")})
    stub = stubread.read_stub(text, ns)
    if stub["syntax_error"] is not None:
        raise stubread.StubError("syntax", str(stub["syntax_error"]))
    # when generated classes collide by name (a C11 finding) references stay opaque and the classes are compared as the
    # ordered sequence in which the stub defines them
    opaque = bool(stub["dupes"])
    out = {}
    for key, infos in stub["funcs"].items():
        info = infos[0]
        out["/".join(key[0] + (key[1],))] = (tuple(info["decorators"]), info["async"], len(infos),
                                             tuple(sorted((n, stubread.canon_of(e[1], stub, {}, opaque)) for n, e in info["args"].items())),
                                             None if info["returns"] is None else stubread.canon_of(info["returns"][1], stub, {}, opaque))
    imports = {}
    tree = ast.parse(text)
    for node in tree.body:
        if isinstance(node, ast.ImportFrom):
            imports.setdefault(node.module, set()).update(a.name for a in node.names)
    if opaque:
        seq = []
        for node in tree.body:
            if isinstance(node, ast.ClassDef) and node.bases:
                fields = tuple(sorted((b.target.id, stubread.canon_of(stub["ev"](b.annotation, "typeddict-class-body")[1], stub, {}, True))
                                      for b in node.body if isinstance(b, ast.AnnAssign)))
                seq.append((node.name, tuple(ast.unparse(b) for b in node.bases), fields))
        classes = {"<ordered>": tuple(seq)}
    else:
        classes = {name: stubread.canon_of(typing.ForwardRef(name), stub, {}) for name in stub["tdclasses"]}
    return {"funcs": out, "imports": {m: tuple(sorted(v)) for m, v in imports.items()}, "classes": classes, "opaque": opaque}


def only_same_named_class_order(a, b):
    """the two canonical stubs differ only in the order in which same-named generated classes are defined"""
    if not (a.get("opaque") and b.get("opaque")) or a["funcs"] != b["funcs"] or a["imports"] != b["imports"]:
        return False
    sa, sb = a["classes"]["<ordered>"], b["classes"]["<ordered>"]
    return sorted(sa, key=repr) == sorted(sb, key=repr) and [c[0] for c in sa] == [c[0] for c in sb]


def diff(a, b):
    for part in ("funcs", "imports", "classes"):
        if a[part] != b[part]:
            ks = sorted(set(a[part]) | set(b[part]), key=str)
            for k in ks:
                if a[part].get(k) != b[part].get(k):
                    return f"{part}[{k}]: {a[part].get(k)!r} vs {b[part].get(k)!r}"
    return None


def nontrivial(tspecs):
    per = {}
    for fname, vs in tspecs:
        for i, v in enumerate(vs):
            per.setdefault((fname, i), set()).add(vals.shape_of(v) if v[0] != "tuple" else "tuple%d" % len(v[1]))
    return any(len(s) >= 3 for s in per.values())


def in_process(ctx, tspecs, k, rw_name, rnd):
    """permutations and duplications through the library entry point"""
    rw = DEFAULT_REWRITER if rw_name == "default" else NoOpRewriter()
    spec = ["INPROC", tspecs, k, rw_name]
    ctx.case(spec, nontrivial(tspecs), ["in-process", "rewriter:" + rw_name, "k=%d" % k])
    base = None
    for p in range(7 if rw_name == "noop" else 6):
        order = list(tspecs)
        if p:
            rnd.shuffle(order)
            order = order + order[: p - 1]
            rnd.shuffle(order)
        traces = [make_trace(t, k) for t in order]
        try:
            if p in (4, 5):
                # the traces reach the store through the logger, flushed at generated points (one batch per flush), and
                # come back from it: how the set was split into flushes must not show
                store = SQLiteStore.make_store(":memory:")
                lg = CallTraceStoreLogger(store)
                cuts = set(rnd.sample(range(len(traces) + 1), min(len(traces) + 1, 0 if p == 4 else rnd.randint(1, 4))))
                for i, t in enumerate(traces):
                    if i in cuts:
                        lg.flush()
                    lg.log(t)
                lg.flush()
                traces = [r.to_trace() for r in store.filter("fx_target", limit=10 ** 6)]
                store.conn.close()
                ctx.label("presentation:logger-flushes=%d" % (len(cuts) + 1))
            if p == 6:
                # the incremental index builder (no rewriter): stubs asked for halfway and again after the rest was logged
                sib = StubIndexBuilder("fx_target", k)
                cut = rnd.randint(0, len(traces))
                for t in traces[:cut]:
                    sib.log(t)
                sib.get_stubs()
                for t in traces[cut:]:
                    sib.log(t)
                text = sib.get_stubs()["fx_target"].render()
                ctx.label("presentation:index-builder")
            else:
                text = build_module_stubs_from_traces(traces, k, rewriter=rw)["fx_target"].render()
            c = canonical(text)
        except stubread.StubError:
            ctx.label("skipped:stub-not-canonicalisable(C11/C12 findings)")
            return
        except Exception as e:
            ctx.label("skipped:stub-generation-raises:" + type(e).__name__)
            return
        if base is None:
            base, base_text = c, text
        else:
            d = diff(base, c)
            if d and only_same_named_class_order(base, c):
                # listed finding (library entry point only): same-named generated classes are emitted in trace order
                ctx.fail("C14/same-named-generated-classes-in-trace-order", spec, f"presentation {p}: {d[:300]}")
            elif d:
                return ctx.fail("C14/stub-depends-on-order-or-duplication", spec, f"presentation {p}: {d}\n--- first\n{base_text[:900]}\n--- other\n{text[:900]}")


def cli_presentations(ctx, tspecs, k, rw_name, rnd, workdir, hashseeds):
    """the same trace set stored in different ways, stubbed by the CLI in fresh interpreters"""
    spec = ["CLI", tspecs, k, rw_name]
    ctx.case(spec, nontrivial(tspecs), ["cli-cross-process", "rewriter:" + rw_name, "k=%d" % k])
    distinct = len({json.dumps(t) for t in tspecs})
    results = []
    import datetime
    day0 = datetime.date.today()
    for p, hs in enumerate(hashseeds):
        db = os.path.join(workdir, f"p{p}.sqlite3")
        if os.path.exists(db):
            os.unlink(db)
        order = list(tspecs)
        if p:
            rnd.shuffle(order)
            order = order + [rnd.choice(order) for _ in range(rnd.randint(0, len(order)))]
            rnd.shuffle(order)
        nconn = 1 + p % 3
        stores = [SQLiteStore.make_store(db) for _ in range(nconn)]
        nb = 1 + p % 4
        for b in range(nb):
            chunk = order[b::nb]
            stores[b % nconn].add([make_trace(t, k) for t in chunk])
        for s in stores:
            s.conn.close()
        env = dict(os.environ, MTV_DB=db, MTV_K=str(k), MTV_RW=rw_name, PYTHONHASHSEED=str(hs))
        argv = [sys.executable, "-m", "monkeytype", "-c", "fx_cfg:CONFIG"] + (["--limit", str(len(order) * 0 + distinct + 3)] if p % 2 else []) + ["stub", "fx_target"]
        pr = subprocess.run(argv, env=env, capture_output=True, text=True, cwd=workdir)
        if pr.returncode != 0 or not pr.stdout.strip():
            if "Traceback" in pr.stderr:
                ctx.label("skipped:cli-crash(C07/C12 own crashes)")
                return
            raise core.HarnessError(f"stub subprocess failed: rc={pr.returncode} {pr.stderr[-800:]}")
        try:
            results.append((p, hs, pr.stdout, canonical(pr.stdout)))
        except stubread.StubError:
            ctx.label("skipped:stub-not-canonicalisable(C11/C12 findings)")
            return
    if distinct >= 2 and len(hashseeds) >= 2 and day0 == datetime.date.today():
        # a row limit that BINDS: which traces survive it may depend on the set of stored traces, never on the order, the
        # duplication or the batches they arrived in (all rows carry the same date; a run that crosses midnight is skipped)
        lim = max(1, distinct // 2)
        limited = []
        for p, hs in list(enumerate(hashseeds))[:2]:
            env = dict(os.environ, MTV_DB=os.path.join(workdir, f"p{p}.sqlite3"), MTV_K=str(k), MTV_RW=rw_name, PYTHONHASHSEED=str(hs))
            pr = subprocess.run([sys.executable, "-m", "monkeytype", "-c", "fx_cfg:CONFIG", "--limit", str(lim), "stub", "fx_target"], env=env, capture_output=True, text=True, cwd=workdir)
            if pr.returncode != 0 or not pr.stdout.strip():
                limited = None
                break
            try:
                limited.append((pr.stdout, canonical(pr.stdout)))
            except stubread.StubError:
                limited = None
                break
        if limited:
            ctx.label("binding-row-limit")
            d = diff(limited[0][1], limited[1][1])
            if d:
                return ctx.fail("C14/stub-depends-on-presentation-or-process", spec + ["binding-limit"],
                                f"--limit {lim} (fewer than the {distinct} distinct traces), same trace set stored in another order / other batches: {d}\n--- first\n{limited[0][0][:900]}\n--- other\n{limited[1][0][:900]}", raise_=False)
    p0, _, text0, c0 = results[0]
    for p, hs, text, c in results[1:]:
        d = diff(c0, c)
        if d:
            return ctx.fail("C14/stub-depends-on-presentation-or-process", spec,
                            f"presentation {p} (PYTHONHASHSEED={hs}, other order/duplicates/batching): {d}\n--- first\n{text0[:900]}\n--- other\n{text[:900]}", raise_=False)


LIB_SCRIPT = """
import random, sys
from monkeytype.db.sqlite import SQLiteStore
from monkeytype.stubs import build_module_stubs_from_traces
from monkeytype.typing import DEFAULT_REWRITER, NoOpRewriter
db, seed, k, rw = sys.argv[1], int(sys.argv[2]), int(sys.argv[3]), sys.argv[4]
rows = SQLiteStore.make_store(db).filter("fx_target", limit=10 ** 6)
rows.sort(key=lambda r: (r.qualname, r.arg_types, str(r.return_type), str(r.yield_type)))
if rows:
    rows = rows[seed % len(rows):] + rows[:seed % len(rows)]  # rotation, reversed for odd seeds, a shuffle beyond len(rows)
    if seed % 2:
        rows.reverse()
    if seed > len(rows):
        random.Random(seed).shuffle(rows)
traces = [r.to_trace() for r in rows]
print(build_module_stubs_from_traces(traces, k, rewriter=DEFAULT_REWRITER if rw == "default" else NoOpRewriter())["fx_target"].render())
"""


def lib_presentations(ctx, tspecs, k, rw_name, workdir, seeds):
    """the library entry point in FRESH interpreters, each given the stored rows in another order (within one process the
    typing module's caches make the first spelling of a union win for good, so orders have to be varied across processes)"""
    spec = ["LIB", tspecs, k, rw_name]
    ctx.case(spec, nontrivial(tspecs), ["library-entry-cross-process", "rewriter:" + rw_name, "k=%d" % k])
    db = os.path.join(workdir, "lib.sqlite3")
    if os.path.exists(db):
        os.unlink(db)
    st_ = SQLiteStore.make_store(db)
    st_.add([make_trace(t, k) for t in tspecs])
    st_.conn.close()
    results = []
    for sd in seeds:
        pr = subprocess.run([sys.executable, "-c", LIB_SCRIPT, db, str(sd), str(k), rw_name], capture_output=True, text=True, cwd=workdir,
                            env=dict(os.environ, PYTHONHASHSEED=str(sd % 5)))
        if pr.returncode != 0 or not pr.stdout.strip():
            ctx.label("skipped:library-entry-raises(C07/C12 own crashes)")
            return
        try:
            results.append((sd, pr.stdout, canonical(pr.stdout)))
        except stubread.StubError:
            ctx.label("skipped:stub-not-canonicalisable(C11/C12 findings)")
            return
    s0, t0, c0 = results[0]
    for sd, text, c in results[1:]:
        d = diff(c0, c)
        if d and only_same_named_class_order(c0, c):
            ctx.fail("C14/same-named-generated-classes-in-trace-order", spec, f"row order {sd}: {d[:300]}", raise_=False)
        elif d:
            return ctx.fail("C14/stub-depends-on-presentation-or-process", spec,
                            f"library entry point, rows in another order (shuffle {s0} vs {sd}): {d}\n--- first\n{t0[:900]}\n--- other\n{text[:900]}", raise_=False)


TWO_SCRIPT = """
import itertools, sys
import fxh, fx_target as X, nmtarget as Y
from monkeytype.stubs import build_module_stubs_from_traces, StubIndexBuilder
from monkeytype.tracing import CallTrace
order, k, a, b, route = int(sys.argv[1]), int(sys.argv[2]), getattr(fxh, sys.argv[3]), getattr(fxh, sys.argv[4]), sys.argv[5]
traces = [CallTrace(X.pair, {"p_pair1": a, "p_pair2": int}, type(None), None),
          CallTrace(X.second, {"p_first": b, "p_second": int}, int, None),
          CallTrace(Y.g, {"x": a, "y": int}, a, None)]
traces = list(list(itertools.permutations(traces))[order % 6])
if order >= 6:
    traces = traces + traces[:2]
if route == "index-builder":
    sib = StubIndexBuilder("fx_target|nmtarget", k)
    for t in traces:
        sib.log(t)
    stubs = sib.get_stubs()
else:
    stubs = build_module_stubs_from_traces(traces, k)
for name in sorted(stubs):
    print("#### " + name)
    print(stubs[name].render())
"""


def two_module_builds(ctx, a, b, k, route, workdir, orders):
    """ONE generation that covers two modules: fx_target has two functions that mention two classes of one library module in
    separate signatures, nmtarget mentions only the first. Every order of the three traces, in a fresh interpreter each: the
    text of both stubs (no unions anywhere, so the text is determined) must be the same."""
    spec = ["TWOMOD", a, b, k, route]
    ctx.case(spec, True, ["two-modules-one-generation", "route:" + route, "k=%d" % k])
    results = []
    for o in orders:
        pr = subprocess.run([sys.executable, "-c", TWO_SCRIPT, str(o), str(k), a, b, route], capture_output=True, text=True, cwd=workdir,
                            env=dict(os.environ, PYTHONHASHSEED=str(o % 4)))
        if pr.returncode != 0 or not pr.stdout.strip():
            raise core.HarnessError(f"two-module build failed: rc={pr.returncode} {pr.stderr[-600:]}")
        results.append((o, pr.stdout))
    o0, t0 = results[0]
    for o, t in results[1:]:
        if t != t0:
            return ctx.fail("C14/stub-depends-on-order-or-duplication", spec,
                            f"one generation covering two modules, traces in order {o0} vs {o}:\n--- first\n{t0[:900]}\n--- other\n{t[:900]}", raise_=False)


def _overlap_classes():
    import barnmfoo
    import fxh
    import mytyping
    import nmfoo
    import nmpkg.nmutils as pn
    import nmutils
    return [nmutils.A, nmutils.Outer.Nested, pn.B, pn.Outer2.Nested2, nmfoo.Baz, barnmfoo.Qux, mytyping.Lst, fxh.D1, nmutils.nmutils]


def overlap_presentations(ctx, picks, workdir, hashseeds):
    """signatures that mention classes of modules whose names overlap textually (nmutils / nmpkg.nmutils, nmfoo / barnmfoo,
    mytyping / typing), one type per position (no unions anywhere, so the text of every annotation is determined): the
    annotations and the import table must not vary with the process. Whether the names resolve is C11's business; here the
    texts are compared."""
    from typing import Dict, List
    import fx_target as t
    cl = _overlap_classes()
    c = [cl[i % len(cl)] for i in picks]
    traces = [CallTrace(t.pair, {"p_pair1": c[0], "p_pair2": c[1]}, type(None), None),
              CallTrace(t.second, {"p_first": List[c[2]], "p_second": c[3]}, Dict[str, c[1]], None),
              CallTrace(t.C.m, {"p_m": c[4]}, c[5], None),
              CallTrace(t.gen, {"p_gen1": c[0], "p_gen2": c[5]}, type(None), c[2])]
    spec = ["OVERLAP", list(picks)]
    ctx.case(spec, True, ["cli-cross-process", "overlapping-module-names"])
    db = os.path.join(workdir, "overlap.sqlite3")
    if os.path.exists(db):
        os.unlink(db)
    st_ = SQLiteStore.make_store(db)
    st_.add(traces)
    st_.conn.close()
    seen = []
    for hs in hashseeds:
        env = dict(os.environ, MTV_DB=db, MTV_K="0", MTV_RW="noop", PYTHONHASHSEED=str(hs))
        pr = subprocess.run([sys.executable, "-m", "monkeytype", "-c", "fx_cfg:CONFIG", "stub", "fx_target"], env=env, capture_output=True, text=True, cwd=workdir)
        if pr.returncode != 0 or not pr.stdout.strip():
            if "Traceback" in pr.stderr:
                ctx.label("skipped:cli-crash(C07/C12 own crashes)")
                return
            raise core.HarnessError(f"stub subprocess failed: rc={pr.returncode} {pr.stderr[-800:]}")
        try:
            tree = ast.parse(pr.stdout)
        except SyntaxError:
            ctx.label("skipped:stub-not-canonicalisable(C11/C12 findings)")
            return
        annos, imports = {}, set()
        for node in ast.walk(tree):
            if isinstance(node, (ast.FunctionDef, ast.AsyncFunctionDef)):
                a = node.args
                for arg in a.posonlyargs + a.args + a.kwonlyargs:
                    annos[(node.name, arg.arg)] = None if arg.annotation is None else ast.unparse(arg.annotation)
                annos[(node.name, "return")] = None if node.returns is None else ast.unparse(node.returns)
            elif isinstance(node, ast.ImportFrom):
                imports |= {(node.module, a.name) for a in node.names}
            elif isinstance(node, ast.Import):
                imports |= {(a.name, None) for a in node.names}
        seen.append((hs, annos, imports, pr.stdout))
    hs0, a0, i0, t0 = seen[0]
    for hs, a, i, text in seen[1:]:
        if a != a0 or i != i0:
            d = sorted(k for k in set(a) | set(a0) if a.get(k) != a0.get(k))
            return ctx.fail("C14/stub-depends-on-presentation-or-process", spec,
                            f"same store, PYTHONHASHSEED={hs0} vs {hs}: annotations differ at {d[:4]} / imports differ: {sorted(i ^ i0, key=str)[:4]}\n--- first\n{t0[:700]}\n--- other\n{text[:700]}", raise_=False)


def big_run(ctx, n_side):
    """the same n_side^2 distinct traces logged through the store logger in ONE long run (one flush at the end) and in runs of
    1000: what reaches the store must not depend on how many traces a run logged before it was flushed"""
    from typing import Tuple
    import fx_target as t
    left = [Tuple[(int,) * a] for a in range(1, n_side + 1)]
    right = [Tuple[(str,) * b] for b in range(1, n_side + 1)]
    traces = [CallTrace(t.pair, {"p_pair1": a, "p_pair2": b}, type(None), None) for a in left for b in right]
    spec = ["BIGRUN", n_side]
    ctx.case(spec, True, ["presentation:one-long-run-vs-short-runs"])
    got = []
    for chunk in (len(traces), 1000):
        store = SQLiteStore.make_store(":memory:")
        lg = CallTraceStoreLogger(store)
        for i, tr in enumerate(traces):
            lg.log(tr)
            if (i + 1) % chunk == 0:
                lg.flush()
        lg.flush()
        rows = store.filter("fx_target", limit=10 ** 7)
        got.append({(r.qualname, r.arg_types) for r in rows})
        store.conn.close()
    if got[0] != got[1] or len(got[0]) != len(traces):
        ctx.fail("C14/stub-depends-on-order-or-duplication", spec,
                 f"{len(traces)} distinct traces logged: one long run stores {len(got[0])} of them, runs of 1000 store {len(got[1])}; "
                 f"{len(got[0] ^ got[1])} rows differ", raise_=False)


def shard(ctx):
    q = ctx.tier == "quick"
    workdir = tempfile.mkdtemp(prefix="c14-")
    try:
        def factory(ctx):
            @given(trace_sets, st.sampled_from([0, 3]), st.sampled_from(["default", "noop"]), st.integers(0, 2**31))
            def test(tspecs, k, rw, rs):
                in_process(ctx, tspecs, k, rw, random.Random(rs))
            return test
        core.run_hypothesis(ctx, factory, 150 if q else 2500)
        # cross-process presentations: trace sets drawn with the shard's seed (no shrinking across processes)
        import hypothesis
        sets = []

        @hypothesis.seed(ctx.shard_seed(9))
        @core.hyp_settings(2 if q else 7, shrink=False)
        @given(trace_sets, st.sampled_from([0, 3]), st.sampled_from(["default", "noop"]))
        def collect(tspecs, k, rw):
            sets.append((tspecs, k, rw))

        @hypothesis.seed(ctx.shard_seed(11))
        @core.hyp_settings(2 if q else 6, shrink=False)
        @given(focused_set, st.sampled_from([0, 3]))
        def collect_focused(tspecs, k):
            # many shapes at ONE position: where union size limits and common-base rewrites (default chain) decide
            sets.append((tspecs, k, "default"))

        @hypothesis.seed(ctx.shard_seed(12))
        @core.hyp_settings(3 if q else 6, shrink=False)
        @given(st.lists(st.lists(siblings, min_size=2, max_size=2), min_size=2, max_size=5), st.sampled_from(sorted(FUNCS)), st.sampled_from(["noop", "default"]))
        def collect_siblings(vss, fname, rw):
            # TypedDict merging across traces with same-named nested classes (k=3): field and class order must not follow hashing
            sets.append(([[fname, v] for v in vss], 3, rw))

        @hypothesis.seed(ctx.shard_seed(13))
        @core.hyp_settings(2 if q else 5, shrink=False)
        @given(st.one_of(mi_family, mi_swapped_family, mi_swapped_lists))
        def collect_mi(tspecs):
            sets.append((tspecs, 0, "default"))

        @hypothesis.seed(ctx.shard_seed(14))
        @core.hyp_settings(3 if q else 8, shrink=False)
        @given(st.one_of(mi_lists, mi_lists, mi_swapped_lists, mi_family, twin_set, focused_set), st.sampled_from([0, 3]))
        def collect_lib(tspecs, k):
            libsets.append((tspecs, k, "default"))

        libsets = []
        collect_lib()
        libsets = libsets[1:][-(2 if q else 6):]  # (Hypothesis always starts with the simplest case: identical spellings)
        collect()
        del sets[0]  # Hypothesis always starts with the simplest case (four minimal traces): not worth eight interpreter starts
        n0 = len(sets)
        collect_mi()
        del sets[n0]
        collect_focused()
        collect_siblings()
        rnd = random.Random(ctx.shard_seed(10))
        for tspecs, k, rw in sets:
            cli_presentations(ctx, tspecs, k, rw, rnd, workdir, [0, 1, 2, 3] if q else [0, 1, 2, 3, 4, 5, 6, 7, 8, 9, 10, 11])
        for tspecs, k, rw in libsets:
            lib_presentations(ctx, tspecs, k, rw, workdir, [0, 1, 2, 3] if q else list(range(0, 10)))
        if ctx.shard == 3 % ctx.nshards:
            big_run(ctx, 110 if q else 150)
        two = ["D1", "D2", "D3", "D4", "Base", "Other"]
        for j in range(1 if q else 6):
            ai = rnd.randrange(len(two))
            two_module_builds(ctx, two[ai], two[(ai + 1 + rnd.randrange(len(two) - 1)) % len(two)], rnd.choice([0, 3]), ["library", "index-builder"][(ctx.shard + j) % 2], workdir,
                              list(range(6)) if q else list(range(8)))
        for _ in range(1 if q else 4):
            overlap_presentations(ctx, [rnd.randrange(0, 9) for _ in range(6)], workdir, [0, 1, 2, 3, 4] if q else list(range(12)))
    finally:
        shutil.rmtree(workdir, ignore_errors=True)


def run(ctx):
    core.run_sharded(ctx, __name__, "shard", 8 if ctx.tier == "quick" else 16)


def replay(ctx, case):
    if case[0] == "LIB":
        d = tempfile.mkdtemp(prefix="c14-")
        try:
            return lib_presentations(ctx, case[1], case[2], case[3], d, list(range(1, 9)))
        finally:
            shutil.rmtree(d, ignore_errors=True)
    if case[0] == "BIGRUN":
        return big_run(ctx, case[1])
    if case[0] == "TWOMOD":
        d = tempfile.mkdtemp(prefix="c14-")
        try:
            return two_module_builds(ctx, case[1], case[2], case[3], case[4], d, list(range(8)))
        finally:
            shutil.rmtree(d, ignore_errors=True)
    if case[0] == "OVERLAP":
        d = tempfile.mkdtemp(prefix="c14-")
        try:
            overlap_presentations(ctx, case[1], d, list(range(8)))
        finally:
            shutil.rmtree(d, ignore_errors=True)
    elif case[0] == "INPROC":
        in_process(ctx, case[1], case[2], case[3], random.Random(0))
    else:
        d = tempfile.mkdtemp(prefix="c14-")
        try:
            cli_presentations(ctx, case[1], case[2], case[3], random.Random(0), d, [0, 1, 2, 3, 4, 5])
        finally:
            shutil.rmtree(d, ignore_errors=True)
