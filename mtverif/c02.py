"""C02 - every completed call yields exactly one faithful call trace."""
import collections
import types

from hypothesis import given, strategies as st

from . import core, synth, tracerun, vals
from .oracle import canon, show

LEVEL = "exploration"
RULE = ("synthesised programs (1..6 functions quick / ..10 thorough; kinds: module function, method, classmethod, "
        "staticmethod, property, inherited, overridden+super(), nested, closure over an argument, functools.wraps, "
        "inner-class method, lambda, settable property, static method of a nested class; parameter kinds posonly / "
        "poskw / kwonly / defaulted / *args / **kwargs; flavours plain / generator / coroutine with real suspensions; "
        "bodies: recorded call of another function, recursion with fuel, parameter rebinding or deletion, yields, "
        "awaits; exits const / None / expression / parameter / implicit / raise) run by a drawn driver schedule "
        "(call, next, close, throw, leave, drain). Oracle: call-site ground truth with innermost-window attribution "
        "plus a reachability walk for residue. Non-trivial: >=2 function kinds and one of: >=2 live generator frames "
        "interleaved, exception exit, recursion depth>=2, rebound parameter, real coroutine suspension; distinct by digest of the program spec.")
ASSUMPTIONS = ["single thread; async generators are outside the quantifier",
               "lambdas, settable-property getters and static methods of nested classes MAY be unresolvable (at most one faithful trace)",
               "get_type is used only as 'the type of this value' (its own correctness is C04/C05)"]


def union_canon(ts):
    cs = set()
    for t in ts:
        c = canon(t)
        if c[0] == "U":
            cs |= c[1]
        else:
            cs.add(c)
    return next(iter(cs)) if len(cs) == 1 else ("U", frozenset(cs))


def kind_of(prog, fn, modname):
    for f in prog["funcs"]:
        if synth.expected_qualname(f) == fn.__qualname__ or (f["kind"] == "override" and fn.__qualname__ == f"KB.F{f['idx']}"):
            if f["kind"] == "override" and fn.__qualname__.startswith("KB."):
                return dict(f, kind="inherited", flavour="plain")
            return f
    return None  # `inner` of nested/closure kinds


def check_result(ctx, prog, res, spec, sampled=False, pid="C02", d21=True):
    """the faithfulness oracle; with sampled=True absence of a trace is fine (C18) but presence must be faithful"""
    R = res.R
    if res.driver_error is not None:
        raise core.HarnessError(f"driver error {res.driver_error!r} in\n{res.src}")
    by_cid = collections.defaultdict(list)
    order = []
    for cid, t in R.logs:
        by_cid[cid].append(t)
        order.append(cid)
    if None in by_cid:
        t = by_cid[None][0]
        return ctx.fail(f"{pid}/trace-outside-any-call-window", spec, f"trace {t!r} logged while no recorded call was open\n{res.src}")
    stats = collections.Counter()
    for cid, c in R.calls.items():
        fn = c["fn"]
        f = kind_of(prog, fn, res.name)
        fkind = f["kind"] if f else "inner"
        may = fkind in synth.MAY or c.get("may", False)
        ts = by_cid.get(cid, [])
        tag = f"{fkind}/{c['kind']}/{c['outcome']}"
        where = f"call #{cid} of {fn.__qualname__} [{tag}]"
        if c["bad_call"] is not None:
            if ts:
                return ctx.fail(f"{pid}/trace-for-call-that-never-ran", spec, f"{where}: {ts}\n{res.src}")
            continue
        mine = [t for t in ts if getattr(t.func, "__code__", None) is fn.__code__]
        other = [t for t in ts if getattr(t.func, "__code__", None) is not fn.__code__]
        if other:
            return ctx.fail(f"{pid}/trace-attributed-to-wrong-function", spec,
                            f"{where}: trace for {other[0].func!r} logged while this call was the innermost open one\n{res.src}")
        if c["state"] != "done":
            if mine:
                return ctx.fail(f"{pid}/trace-for-unfinished-call", spec, f"{where} (state {c['state']}): {mine}\n{res.src}")
            continue
        stats["finished"] += 1
        if c["killed_at_yield"]:
            # generator/coroutine ended by an exception delivered at its suspension point
            if not mine:
                if not sampled and d21:
                    ctx.fail(f"{pid}/generator-ended-by-exception-at-yield:no-trace", spec,
                             f"{where}: ended by {c.get('exc')} thrown/closed at its yield point and was never logged\n{res.src}")
                continue
        if len(mine) > 1:
            return ctx.fail(f"{pid}/logged-more-than-once", spec, f"{where}: {len(mine)} traces {mine}\n{res.src}")
        if not mine:
            if may or sampled:
                continue
            return ctx.fail(f"{pid}/completed-call-not-logged:{fkind}", spec, f"{where}: no trace\n{res.src}")
        t = mine[0]
        stats["checked"] += 1
        if t.func.__module__ != res.name or t.func.__qualname__ != fn.__qualname__:
            return ctx.fail(f"{pid}/wrong-function-identity", spec, f"{where}: trace names {t.func.__module__}.{t.func.__qualname__}\n{res.src}")
        want = {k: canon(v) for k, v in c["args"].items()}
        got = {k: canon(v) for k, v in t.arg_types.items()}
        for vn, vt in c["variadic"].items():
            if vn in got:
                # the logged argument types are those of the *named* parameters; the packed *args / **kwargs objects are not
                return ctx.fail(f"{pid}/variadic-parameter-logged", spec, f"{where}: `{vn}` logged as {t.arg_types[vn]}\n{res.src}")
        if want != got:
            extra = ""
            if sampled and c["kind"] in ("gen", "coro"):
                extra = ":generator-under-sampling"
            return ctx.fail(f"{pid}/argument-types-differ{extra}", spec,
                            f"{where}: logged {t.arg_types}, values bound at call start had types {c['args']}\n{res.src}")
        if c["outcome"] == "raise":
            if t.return_type is not None:
                return ctx.fail(f"{pid}/return-type-on-exception-exit", spec, f"{where}: return type {t.return_type}\n{res.src}")
        else:
            if t.return_type is None:
                return ctx.fail(f"{pid}/return-type-absent", spec, f"{where}: returned a value of type {c['ret']} but the trace has no return type\n{res.src}")
            if canon(t.return_type) != canon(c["ret"]):
                return ctx.fail(f"{pid}/return-type-differs", spec, f"{where}: {t.return_type} expected {c['ret']}\n{res.src}")
        if c["kind"] == "coro":
            if t.yield_type is not None:
                return ctx.fail(f"{pid}/coroutine-has-yield-type", spec, f"{where}: yield type {t.yield_type} after {c['awaits']} suspension(s)\n{res.src}")
        elif not c["yields"]:
            if t.yield_type is not None:
                return ctx.fail(f"{pid}/yield-type-without-yield", spec, f"{where}: yield type {t.yield_type}\n{res.src}")
        else:
            if t.yield_type is None or canon(t.yield_type) != union_canon(c["yields"]):
                extra = ":generator-under-sampling" if sampled else ""
                return ctx.fail(f"{pid}/yield-type-differs{extra}", spec, f"{where}: {t.yield_type} expected union of {c['yields']}\n{res.src}")
    # order of completion
    completed_logged = [cid for cid in R.completed if cid in by_cid]
    seen = []
    for cid in order:
        if cid not in seen:
            seen.append(cid)
    if seen != completed_logged:
        return ctx.fail(f"{pid}/not-in-completion-order", spec, f"log order {seen} vs completion order {completed_logged}\n{res.src}")
    # residue: frames of generators the schedule left suspended are legitimate
    traces, frames = res.residue
    bad_frames = [fr for fr in frames if id(fr) not in res.left_frame_ids]
    killed_codes = [c["fn"].__code__ for c in R.calls.values() if c["killed_at_yield"]]
    if bad_frames or len(traces) > len(res.left):
        # listed finding: exactly the frames of generators/coroutines ended by an exception at their suspension point
        if (killed_codes and len(bad_frames) <= len(killed_codes) and all(fr.f_code in killed_codes for fr in bad_frames)
                and len(traces) <= len(res.left) + len(killed_codes)):
            if d21:
              ctx.fail(f"{pid}/generator-ended-by-exception-at-yield:residue", spec,
                     f"tracer still holds {len(bad_frames)} frame(s) of generators ended at their yield point\n{res.src}")
        else:
            return ctx.fail(f"{pid}/per-call-state-left-behind", spec,
                            f"after all calls finished the tracer still reaches {len(traces)} CallTrace(s) and frames {[fr.f_code.co_name for fr in bad_frames]}\n{res.src}")
    if res.logger.flushed != 1:
        return ctx.fail(f"{pid}/flush-count", spec, f"logger flushed {res.logger.flushed} times")
    return stats


def nontrivial(prog, R):
    kinds = {f["kind"] for f in prog["funcs"]}
    exc = any(c["outcome"] == "raise" for c in R.calls.values())
    susp = any(c["kind"] == "coro" and c["awaits"] for c in R.calls.values())
    gens = sum(1 for c in R.calls.values() if c["kind"] == "gen" and c["resumes"] >= 2)
    rebound = any(f["rebind"] != "no" for f in prog["funcs"])
    return len(kinds) >= 2 and (exc or susp or gens >= 2 or rebound or len(R.calls) > len(prog["ops"]) + 2)


def labels(prog, R):
    out = set()
    for c in R.calls.values():
        out.add("call:" + c["kind"] + "/" + str(c["outcome"] or c["state"]))
        if c["killed_at_yield"]:
            out.add("killed-at-yield")
        if c["kind"] == "coro" and c["awaits"]:
            out.add("coroutine-really-suspended")
    for f in prog["funcs"]:
        out.add("kind:" + f["kind"])
    return sorted(out)


# hand-written program shapes the synthesiser does not produce, each with the exact traces it must give (completion order):
# two code objects that start on ONE source line; a recursive closure reached only through a container (the one frame whose
# locals hold it is its own); a lambda that is a local of its caller and is called back from C code; a generator expression
SHAPE_SRC = '''
def outer(x, key=lambda v: [v]): return key(x)

def make():
    def fact(n):
        return 1 if n <= 1 else n * fact(n - 1)
    return fact
HOLDER = {"f": make()}
def use():
    return HOLDER["f"](3)

def sort_names(names):
    fold = lambda s: s.lower()
    return sorted(names, key=fold)

def total(xs): return sum(v * 1.5 for v in xs)
'''


def _shape_expectations():
    from typing import Callable, List
    return {
        "outer": ("outer(1)", [("<lambda>", {"v": int}, List[int]), ("outer", {"x": int, "key": Callable}, List[int])]),
        "use": ("use()", [("make.<locals>.fact", {"n": int}, int)] * 3 + [("use", {}, int)]),
        "sort_names": ("sort_names(['b', 'A'])", [("sort_names.<locals>.<lambda>", {"s": str}, str)] * 2 + [("sort_names", {"names": List[str]}, List[str])]),
        "total": ("total([1, 2])", [("total", {"xs": List[int]}, float)]),
    }


def shape_table(ctx, sc, order, rounds):
    import importlib
    from monkeytype.tracing import CallTraceLogger, trace_calls
    name, path = sc.new_module(SHAPE_SRC, stem="mtv_shapes")
    spec = ["SHAPES", list(order), rounds]
    ctx.case(spec, True, ["hand-written-shapes", "rounds=%d" % rounds])
    exp = _shape_expectations()
    try:
        mod = importlib.import_module(name)
        logged = []

        class L(CallTraceLogger):
            def log(self, t):
                logged.append(t)

        with trace_calls(L(), 0, lambda code: code.co_filename == path):
            for _ in range(rounds):
                for o in order:
                    eval(exp[o][0], vars(mod))
        want = [(q, tuple(sorted((k, repr(v)) for k, v in a.items())), repr(r)) for _ in range(rounds) for o in order for (q, a, r) in exp[o][1]]
        got = [(t.func.__qualname__, tuple(sorted((k, repr(v)) for k, v in t.arg_types.items())), repr(t.return_type)) for t in logged
               if t.func.__code__.co_name != "<genexpr>"]
        if got != want:
            missing = [w for w in want if w not in got]
            extra = [g for g in got if g not in want]
            sig = "C02/completed-call-not-logged:shape" if missing and not extra else "C02/trace-differs-from-call:shape"
            return ctx.fail(sig, spec, f"calls {[exp[o][0] for o in order]} x{rounds}\nexpected (completion order) {want}\nlogged {got}\nmissing {missing[:4]} unexpected {extra[:4]}")
    finally:
        sc.drop(name, path)


def shard(ctx):
    q = ctx.tier == "quick"
    sc = tracerun.Scratch("c02-")
    try:
        def factory(ctx):
            @given(synth.program(max_funcs=6 if q else 10, max_ops=10 if q else 30, valstrat=vals.values(2)), st.sampled_from([0, 0, 3]))
            def test(prog, k):
                res = tracerun.run_program(prog, sc, k=k)
                ctx.case(prog, nontrivial(prog, res.R), labels(prog, res.R))
                check_result(ctx, prog, res, [prog, k])
            return test
        core.run_hypothesis(ctx, factory, 600 if q else 4000)

        def factory_shapes(ctx):
            @given(st.permutations(["outer", "use", "sort_names", "total"]), st.integers(1, 4), st.sampled_from([1, 2]))
            def test(order, n, rounds):
                shape_table(ctx, sc, list(order)[:n], rounds)
            return test
        core.run_hypothesis(ctx, factory_shapes, 6 if q else 60, salt=3)
    finally:
        sc.close()


def run(ctx):
    core.run_sharded(ctx, __name__, "shard", 8 if ctx.tier == "quick" else 16)


def replay(ctx, case):
    sc = tracerun.Scratch("c02-")
    try:
        if case[0] == "SHAPES":
            return shape_table(ctx, sc, case[1], case[2])
        res = tracerun.run_program(case[0], sc, k=case[1])
        check_result(ctx, case[0], res, case)
    finally:
        sc.close()
