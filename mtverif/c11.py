"""C11 - rendered annotations denote the inferred type and stubs are self-contained."""
import ast
import importlib
import inspect
import io as _io_mod
import typing
from typing import Any, Callable, DefaultDict, Dict, Generator, Iterator, List, Optional, Set, Tuple, Type, Union

from hypothesis import given, strategies as st

from monkeytype.stubs import build_module_stubs_from_traces
from monkeytype.tracing import CallTrace
from monkeytype.typing import make_typed_dict

from . import core, oracle, stubread

LEVEL = "translation_validation"
RULE = ("types drawn from a grammar over classes spread across modules whose names overlap textually (nmutils / nmpkg.nmutils, "
        "nmfoo / barnmfoo, mytyping), a class named like its module, a class containing `NoneType` in its name, nested classes "
        "1..3 deep, the target module's own classes, _io types, NoneType/Optional, Type[C], Callable, Iterator, Generator, "
        "DefaultDict, Tuple[()], Tuple[T, ...], the generics a kept source annotation can bring (Callable[[...], R] with 0..3 parameters, "
        "Callable[..., R], Iterable/Sequence/Mapping/Awaitable/FrozenSet/...), and anonymous TypedDicts at every container position; attached as argument / "
        "return / yield types to traces of 7 functions of a target module (module-level, method, classmethod, staticmethod, "
        "nested-class method, generator) and rendered by the real ModuleStub. Oracle: the text is parsed, its import block "
        "executed, its class stubs read, every annotation evaluated in that namespace and compared structurally with the type "
        "that was rendered; every name used anywhere must be provided. Non-trivial: annotation mentions >=2 modules, a nested "
        "class, a TypedDict or has depth>=2; distinct by digest of the trace spec.")
ASSUMPTIONS = ["`Optional[...]` is expected where the parameter's default is None", "names of the target module itself may be used unqualified"]


def classes():
    import barnmfoo, fxh, mytyping, nmfoo, nmtarget, nmutils
    import nmpkg.nmutils as pn
    return {
        "nmutils.A": nmutils.A, "nmutils.nmutils": nmutils.nmutils, "nmutils.Outer.Nested": nmutils.Outer.Nested,
        "nmutils.Outer.Nested.Deeper": nmutils.Outer.Nested.Deeper, "nmpkg.nmutils.B": pn.B, "nmpkg.nmutils.Outer2.Nested2": pn.Outer2.Nested2,
        "nmfoo.Baz": nmfoo.Baz, "barnmfoo.Qux": barnmfoo.Qux, "mytyping.Lst": mytyping.Lst, "mytyping.HasNoneTypeInName": mytyping.HasNoneTypeInName, "mytyping.EllipsisMark": mytyping.EllipsisMark, "mytyping.EllipsisMark.Ellipsis": mytyping.EllipsisMark.Ellipsis,
        "fxh.Base": fxh.Base, "fxh.Outer.Inner": fxh.Outer.Inner, "own.Own": nmtarget.Own, "own.Own.OwnNested": nmtarget.Own.OwnNested,
        "io.StringIO": _io_mod.StringIO, "io.BytesIO": _io_mod.BytesIO, "io.IOBase": _io_mod.IOBase, "io.UnsupportedOperation": _io_mod.UnsupportedOperation, "int": int, "str": str, "None": type(None), "float": float, "bytes": bytes,
    }


CLASS_NAMES = ["nmutils.A", "nmutils.nmutils", "nmutils.Outer.Nested", "nmutils.Outer.Nested.Deeper", "nmpkg.nmutils.B", "nmpkg.nmutils.Outer2.Nested2",
               "nmfoo.Baz", "barnmfoo.Qux", "mytyping.Lst", "mytyping.HasNoneTypeInName", "mytyping.EllipsisMark", "mytyping.EllipsisMark.Ellipsis", "fxh.Base", "fxh.Outer.Inner", "own.Own", "own.Own.OwnNested",
               "io.StringIO", "io.BytesIO", "io.IOBase", "io.UnsupportedOperation", "int", "str", "None", "float", "bytes"]
leaf = st.one_of(st.sampled_from(CLASS_NAMES).map(lambda n: ["c", n]), st.sampled_from(CLASS_NAMES[:16]).map(lambda n: ["c", n]),
                 st.sampled_from([["Any"], ["Callable"], ["Tuple0"], ["Iterator", ["Any"]]]))
FIELDS = ["alpha", "beta", "gamma", "a", "b"]


def ext(sub):
    td = st.tuples(st.lists(st.tuples(st.sampled_from(FIELDS), sub).map(list), max_size=3, unique_by=lambda f: f[0]),
                   st.lists(st.tuples(st.sampled_from(["opt1", "opt2"]), sub).map(list), max_size=2, unique_by=lambda f: f[0])).filter(
        lambda p: p[0] or p[1]).map(lambda p: ["TD", p[0], p[1]])
    return st.one_of(
        sub.map(lambda t: ["List", t]), sub.map(lambda t: ["Set", t]),
        st.tuples(sub, sub).map(lambda p: ["Dict", p[0], p[1]]), st.tuples(sub, sub).map(lambda p: ["DefaultDict", p[0], p[1]]),
        st.lists(sub, min_size=1, max_size=3).map(lambda l: ["Tuple", l]), sub.map(lambda t: ["TupleEllipsis", t]),
        st.sampled_from(CLASS_NAMES[:16]).map(lambda n: ["Type", n]), sub.map(lambda t: ["Iterator", t]),
        st.tuples(sub, sub).map(lambda p: ["Generator", p[0], ["c", "None"], p[1]]),
        st.lists(sub, min_size=2, max_size=4, unique_by=repr).map(lambda l: ["Union", l]),
        sub.map(lambda t: ["Union", [t, ["c", "None"]]]), td, td,
    )


# generics that MonkeyType never infers but that reach the renderer from a source annotation kept under the default
# strategy (or from a custom rewriter): parametrised Callable (0, 1, 2+ parameters, `...`) and typing's abstract containers
_cls_leaf = st.sampled_from(CLASS_NAMES).map(lambda n: ["c", n])
source_generics = st.one_of(
    st.tuples(st.lists(_cls_leaf, max_size=3), _cls_leaf).map(lambda p: ["CallableP", p[0], p[1]]),
    _cls_leaf.map(lambda t: ["CallableE", t]),
    st.tuples(st.sampled_from(["Iterable", "Sequence", "Awaitable", "FrozenSet", "AsyncIterator", "Deque", "Collection"]), _cls_leaf).map(lambda p: ["Gen1", p[0], p[1]]),
    st.tuples(st.sampled_from(["Mapping", "OrderedDict", "MutableMapping"]), st.sampled_from([["c", "str"], ["c", "int"]]), _cls_leaf).map(lambda p: ["Gen2", p[0], p[1], p[2]]),
    # PEP 585 / PEP 604 spellings (what modern source annotations look like): list[C], dict[str, C], tuple[C, ...], type[C], C | None
    st.tuples(st.sampled_from(["list", "set", "frozenset", "tupleE", "type"]), _cls_leaf).map(lambda p: ["P585", p[0], p[1]]),
    st.tuples(st.sampled_from([["c", "str"], ["c", "int"]]), _cls_leaf).map(lambda p: ["P585", "dict", p[0], p[1]]),
    st.tuples(_cls_leaf, st.sampled_from([["c", "None"], ["c", "int"], ["c", "nmfoo.Baz"]])).filter(lambda p: p[0] != p[1]).map(lambda p: ["P604", p[0], p[1]]),
    st.tuples(_cls_leaf).map(lambda p: ["P585", "list", ["P604", p[0], ["c", "None"]]]),
    # ... wrapped around typing's own generics (`list[Optional[C]]`, `dict[str, List[C]]`, `Box[List[C]]`): the outer node is not a
    # `typing` object but holds some
    st.tuples(st.sampled_from(["list", "set", "type-free"]), _cls_leaf).map(lambda p: ["P585", "list" if p[0] == "type-free" else p[0], ["Union", [p[1], ["c", "None"]]]]),
    _cls_leaf.map(lambda t: ["P585", "dict", ["c", "str"], ["List", t]]),
    _cls_leaf.map(lambda t: ["UserGen", ["List", t]]),
    _cls_leaf.map(lambda t: ["P604", ["List", t], ["c", "None"]]),
    # a user-defined generic class, also with None as its argument
    st.one_of(_cls_leaf, st.just(["c", "None"]), st.just(["c", "None"])).map(lambda t: ["UserGen", t]),
)
general_types = st.recursive(st.one_of(leaf, leaf, leaf, source_generics), ext, max_leaves=8)


def _flat_td(names):
    return st.lists(st.sampled_from(names), min_size=1, max_size=2, unique=True).map(lambda ns: ["TD", [[n, ["c", "int"]] for n in ns], []])


# two differently shaped TypedDicts that are siblings inside ONE container and share no parameter or field name: their
# generated classes must get different names
_wrap = st.sampled_from(["List", "Set", "opt", "bare"])
sibling_tds = st.tuples(_flat_td(["alpha", "beta"]), _flat_td(["gamma", "opt1"]), _wrap, _wrap, st.sampled_from(["Tuple", "Dict", "Union"])).map(
    lambda p: [p[4] if p[4] != "Dict" else "Tuple", [_w(p[0], p[2]), _w(p[1], p[3])]] if p[4] != "Dict" else ["Dict", _w(p[0], "bare" if p[2] in ("List", "Set") else "bare"), _w(p[1], p[3])])


def _w(t, how):
    return {"List": ["List", t], "Set": ["List", t], "opt": ["Union", [t, ["c", "None"]]], "bare": t}[how]


# types as inference produces them from grammar values (k=10): whatever container kinds get_type descends into, the renderer
# and the TypedDict-to-class rewriter must handle
from . import vals as _vals
_irec = st.lists(st.tuples(st.sampled_from(["alpha", "beta"]), st.sampled_from([["lit", 0], ["lit", "x"], ["inst", "D1"]])).map(lambda kv: [["lit", kv[0]], kv[1]]),
                 min_size=1, max_size=2, unique_by=lambda kv: kv[0][1]).map(lambda l: ["dict", l])
inferred_types = st.one_of(_vals.values(2), st.tuples(st.sampled_from(["deque", "list", "tuple", "odict", "ddict", "set-of-tuples"]), _irec).map(
    lambda p: {"deque": ["deque", [p[1]]], "list": ["list", [p[1]]], "tuple": ["tuple", [p[1], ["lit", 1]]], "odict": ["odict", [[["lit", "a"], p[1]]]],
               "ddict": ["ddict", [[["lit", 0], p[1]]]], "set-of-tuples": ["set", [["tuple", [["lit", 1], ["lit", "s"]]]]]}[p[0]])).map(lambda v: ["inferred", v])
types = st.one_of(general_types, general_types, general_types, sibling_tds, inferred_types,
                  st.sampled_from([["UserGen", ["c", "None"]], ["UserGen", ["c", "nmutils.A"]], ["CallableP", [], ["c", "None"]], ["Gen1", "Iterable", ["c", "None"]],
                                   ["P585", "list", ["Union", [["c", "nmfoo.Baz"], ["c", "None"]]]], ["UserGen", ["List", ["c", "int"]]]]))


def build(s, C):
    k = s[0]
    if k == "inferred":
        from monkeytype.typing import get_type
        return get_type(_vals.build(s[1]), 10)
    if k == "c":
        return C[s[1]]
    if k == "Any":
        return Any
    if k == "Callable":
        return Callable
    if k == "Tuple0":
        return Tuple[()]
    if k == "List":
        return List[build(s[1], C)]
    if k == "Set":
        return Set[build(s[1], C)]
    if k == "Dict":
        return Dict[build(s[1], C), build(s[2], C)]
    if k == "DefaultDict":
        return DefaultDict[build(s[1], C), build(s[2], C)]
    if k == "Tuple":
        return Tuple[tuple(build(e, C) for e in s[1])]
    if k == "TupleEllipsis":
        return Tuple[build(s[1], C), ...]
    if k == "Type":
        return Type[C[s[1]]]
    if k == "Iterator":
        return Iterator[build(s[1], C)]
    if k == "Generator":
        return Generator[build(s[1], C), build(s[2], C), build(s[3], C)]
    if k == "Union":
        return Union[tuple(build(e, C) for e in s[1])]
    if k == "TD":
        return make_typed_dict(required_fields={n: build(t, C) for n, t in s[1]}, optional_fields={n: build(t, C) for n, t in s[2]})
    if k == "CallableP":
        return Callable[[build(e, C) for e in s[1]], build(s[2], C)]
    if k == "CallableE":
        return Callable[..., build(s[1], C)]
    if k == "Gen1":
        return getattr(typing, s[1])[build(s[2], C)]
    if k == "Gen2":
        return getattr(typing, s[1])[build(s[2], C), build(s[3], C)]
    if k == "P585":
        if s[1] == "dict":
            return dict[build(s[2], C), build(s[3], C)]
        if s[1] == "tupleE":
            return tuple[build(s[2], C), ...]
        return {"list": list, "set": set, "frozenset": frozenset, "type": type}[s[1]][build(s[2], C)]
    if k == "P604":
        return build(s[1], C) | build(s[2], C)
    if k == "UserGen":
        import nmfoo
        return nmfoo.Box[build(s[1], C)]
    raise ValueError(s)


def modules_of(s, acc=None):
    acc = set() if acc is None else acc
    if s[0] == "inferred":
        return acc
    if s[0] in ("c", "Type"):
        n = s[1]
        if "." in n:
            acc.add(n.split(".")[0] if not n.startswith("nmpkg") else "nmpkg.nmutils")
    for e in s[1:]:
        if isinstance(e, list):
            if e and isinstance(e[0], str):
                modules_of(e, acc)
            else:
                for x in e:
                    if isinstance(x, list) and x:
                        modules_of(x if isinstance(x[0], str) and x[0][0].isupper() or x[0] == "c" else x[1], acc)
    return acc


def has_kind(s, kind):
    if s[0] == kind:
        return True
    if s[0] == "inferred":
        return kind == "TD" and "dict" in repr(s)
    for e in s[1:]:
        if isinstance(e, list):
            if e and isinstance(e[0], str):
                if (e[0][0].isupper() or e[0] == "c") and has_kind(e, kind):
                    return True
            else:
                for x in e:
                    if isinstance(x, list) and x and has_kind(x if (isinstance(x[0], str) and (x[0][0].isupper() or x[0] == "c")) else x[1], kind):
                        return True
    return False


FUNCS = ["f", "g", "gen", "T.m", "T.cm", "T.sm", "T.In.im", "h1", "h2", "ell"]


def live_funcs():
    import nmtarget as t
    return {"f": t.f, "g": t.g, "gen": t.gen, "T.m": t.T.m, "T.cm": t.T.cm.__func__, "T.sm": t.T.sm, "T.In.im": t.T.In.im, "h1": t.h1, "h2": t.h2, "ell": t.ell}


trace_spec = st.tuples(st.sampled_from(FUNCS), st.lists(types, max_size=2), st.one_of(st.none(), types), st.one_of(st.none(), st.none(), types)).map(list)
# two functions with IDENTICAL signatures (h1 / h2) traced with the very same types, a class of the target module among them
own_or_any = st.one_of(st.sampled_from([["c", "own.Own"], ["List", ["c", "own.Own"]], ["c", "own.Own.OwnNested"]]), types)
twin_traces = st.tuples(own_or_any, st.one_of(st.none(), own_or_any)).map(lambda p: [["h1", [p[0]], p[1], None], ["h2", [p[0]], p[1], None]])


def td_under_undescended(T, under=False):
    """a TypedDict below a generic the TypedDict-to-class rewriter does not descend into"""
    if oracle.is_anon_td(T):
        if under:
            return True
        r, o = oracle.td_fields(T)
        return any(td_under_undescended(x, False) for x in list(r.values()) + list(o.values()))
    og = oracle.origin(T)
    if og is None:
        return False
    import collections
    desc = og in (list, set, dict, tuple, Union, collections.abc.Generator)
    return any(td_under_undescended(m, under or not desc) for m in oracle.args(T) if m is not Ellipsis and not isinstance(m, (list, tuple)))


def td_nodes_with_identity(tspecs):
    """every TypedDict node of the trace specs with (hint, identity path, shape): hint = nearest enclosing field name, else the
    position's own name; identity path = (function, position, enclosing field names). Container indices are NOT part of it."""
    out = []

    def walk(s, func, pos, keys):
        if s[0] == "inferred":
            return
        if s[0] == "TD":
            hint = keys[-1] if keys else pos
            out.append((hint, (func, pos, tuple(keys)), repr(s)))
            for n, t in s[1] + s[2]:
                walk(t, func, pos, keys + [n])
            return
        for e in s[1:]:
            if isinstance(e, list):
                if e and isinstance(e[0], str) and (e[0][0].isupper() or e[0] == "c"):
                    walk(e, func, pos, keys)
                else:
                    for x in e:
                        if isinstance(x, list) and x and isinstance(x[0], str) and (x[0][0].isupper() or x[0] == "c"):
                            walk(x, func, pos, keys)

    LF = live_funcs()
    for fname, argspecs, ret, yld in tspecs:
        fn = LF[fname]
        params = [p for p in inspect.signature(fn).parameters if p not in ("self", "cls")]
        for pname, sp in zip(params, argspecs):
            walk(sp, fname, pname, [])
        if ret is not None:
            walk(ret, fname, "<return>", [])
        if yld is not None and fname == "gen":
            walk(yld, fname, "<yield>", [])
    return out


def name_coincidence(tspecs):
    """trigger of the listed finding: two differently shaped TypedDicts whose class name hints coincide because of a
    *name* - the same parameter name in two functions, or the same field name at two places - not merely because they are
    siblings inside one container (those get an index suffix)"""
    nodes = td_nodes_with_identity(tspecs)
    for i, (h1, id1, sh1) in enumerate(nodes):
        for h2, id2, sh2 in nodes[:i]:
            if h1 == h2 and sh1 != sh2 and id1 != id2 and not (h1.startswith("<") and id1[0] != id2[0]):
                return True
    return False


def classify_unresolved(ctx, spec, stub, text, imported_modules):
    """-> signature for an unresolved-name failure, by where the text sits"""
    wheres = {u[0] for u in stub["unresolved"]}
    names = {u[1] for u in stub["unresolved"]}
    if wheres <= {"typeddict-class-body"}:
        return "C11/name-in-generated-typeddict-class-body-not-provided"
    return None


def check(ctx, tspecs, k, route="traces"):
    import nmtarget
    C = classes()
    LF = live_funcs()
    if k == 0 and any(has_kind(x, "TD") for t in tspecs for x in list(t[1]) + [y for y in (t[2], t[3]) if y is not None]):
        k = 10  # with the limit at zero no TypedDict reaches the stub generator
    spec = ["STUB", tspecs, k] + ([route] if route != "traces" else [])
    traces = []
    expect = {}
    mods = set()
    nt = False
    for fname, argspecs, ret, yld in tspecs:
        fn = LF[fname]
        if fn in expect:
            continue
        params = [p for p in inspect.signature(fn).parameters.values() if p.name not in ("self", "cls")]
        at = {}
        for p, s in zip(params, argspecs):
            at[p.name] = build(s, C)
        rt = build(ret, C) if ret is not None else None
        yt = build(yld, C) if yld is not None and fname == "gen" else None
        for s in list(argspecs) + [x for x in (ret, yld) if x is not None]:
            mods |= modules_of(s)
            nt |= has_kind(s, "TD") or len(modules_of(s)) >= 2 or "Nested" in repr(s) or repr(s).count("[") > 3
        traces.append(CallTrace(fn, at, rt, yt))
        expect[fn] = (at, rt, yt)
    labels = []
    if {"nmutils", "nmpkg.nmutils"} <= mods or {"nmfoo", "barnmfoo"} <= mods:
        labels.append("overlapping-module-names")
    allT = [t for at, rt, yt in expect.values() for t in list(at.values()) + [rt, yt] if t is not None]
    tdund = any(td_under_undescended(t) for t in allT)
    hastd = any("DUMMY_NAME" in repr(t) for t in allT)
    if hastd:
        labels.append("typeddict")
    if tdund:
        labels.append("typeddict-under-undescended-generic")
    ctx.case(spec, nt, labels + ["k=%d" % k, "route:" + route])
    try:
        if route == "index-builder":
            # the other public route to a module stub: traces logged one by one into the incremental index builder
            from monkeytype.stubs import StubIndexBuilder
            sib = StubIndexBuilder("nmtarget", k)
            for t_ in traces:
                sib.log(t_)
            text = sib.get_stubs()["nmtarget"].render()
        else:
            text = build_module_stubs_from_traces(traces, k)["nmtarget"].render()
    except Exception as e:
        return ctx.fail(f"C11/render-raises:{type(e).__name__}", spec, repr(e))
    stub = stubread.read_stub(text, {n: v for n, v in vars(nmtarget).items() if not n.startswith("__")})
    if stub["syntax_error"] is not None:
        return ctx.fail("C11/stub-does-not-parse", spec, f"{stub['syntax_error']}\n{text}")
    # (a) every name provided
    if "DUMMY_NAME" in text:
        if tdund:
            return ctx.fail("C11/typeddict-under-undescended-generic-rendered-as-DUMMY_NAME", spec, text[:1500])
        return ctx.fail("C11/DUMMY_NAME-in-stub", spec, text[:1500])
    if stub["dupes"] and "inferred" in repr(tspecs):
        ctx.label("skipped:colliding-class-names-with-inferred-typeddicts")  # the name-coincidence test reads type specs only
        return
    if stub["dupes"]:
        if name_coincidence(tspecs):
            ctx.fail("C11/generated-typeddict-class-names-collide", spec, f"classes {sorted(set(stub['dupes']))} defined twice with different bodies\n{text[:1500]}")
            return
        return ctx.fail("C11/typeddict-class-names-collide-without-a-name-coincidence", spec,
                        f"classes {sorted(set(stub['dupes']))} defined twice with different bodies although no two TypedDicts share a parameter or field name\n{text[:1500]}")
    if stub["unresolved"]:
        bodyonly = all(u[0] == "typeddict-class-body" for u in stub["unresolved"])
        if bodyonly:
            ctx.fail("C11/name-in-generated-typeddict-class-body-not-provided", spec, f"{sorted({u[1] for u in stub['unresolved']})}\n{text[:1500]}")
        else:
            names = sorted({u[1] for u in stub["unresolved"] if u[0] != "typeddict-class-body"})
            mangled = {c.__name__.replace("NoneType", "None") for c in C.values() if "NoneType" in c.__name__ and c.__name__ != "NoneType"}
            if all(n in mangled for n in names):
                ctx.fail("C11/class-name-containing-NoneType-mangled", spec, f"{names}\n{text[:1500]}")
            elif _prefix_strip_explains(stub, text, [n for n in names if n not in mangled], _sigmods(stub, expect)):
                ctx.fail("C11/overlapping-module-name-prefix-stripped", spec, f"{names}\n{text[:1500]}")
            else:
                return ctx.fail("C11/name-not-provided-by-stub", spec, f"{names}\n{text[:1500]}")
        return
    # (b) every annotation evaluates back to the rendered type
    for fn, (at, rt, yt) in expect.items():
        qn = fn.__qualname__.split(".")
        infos = stub["funcs"].get((tuple(qn[:-1]), qn[-1]))
        if not infos:
            return ctx.fail("C11/function-missing-from-stub", spec, f"{fn.__qualname__}\n{text}")
        info = infos[0]
        sig = inspect.signature(fn)
        fmods = signature_modules(list(at.values()) + [rt, yt]) | {"typing"}
        for name, Tt in at.items():
            want = Tt
            if sig.parameters[name].default is None and not (oracle.origin(Tt) is Union and type(None) in oracle.args(Tt)):
                want = Optional[Tt]
            r = _cmp(ctx, spec, stub, info["args"].get(name), want, f"{fn.__qualname__}({name})", text, labels, fmods)
            if r:
                return
        if yt is not None:
            want = Iterator[yt] if rt is None or rt is type(None) else Generator[yt, None, rt]
        else:
            want = rt
        if want is not None:
            if _cmp(ctx, spec, stub, info["returns"], want, f"{fn.__qualname__} return", text, labels, fmods):
                return


def signature_modules(types_):
    """modules whose prefix the renderer strips from ONE signature: those of the classes and typing constructs that occur in
    that signature's own annotations (the listed prefix-stripping finding needs both overlapping modules in one signature)"""
    mods = set()

    def walk(T):
        if T is None or T is Ellipsis:
            return
        if oracle.is_anon_td(T):
            mods.add("mypy_extensions")
            return  # fields are rendered in the generated class body, not in the signature
        og = oracle.origin(T)
        if og is None:
            m = getattr(T, "__module__", None)
            if T is Any or m == "typing":
                mods.add("typing")
            elif m == "_io":
                mods.update(("io", "_io"))
            elif m and m != "builtins":
                mods.add(m)
            return
        mods.add("typing")
        if getattr(og, "__module__", "builtins") not in ("builtins", "typing", "collections", "collections.abc", "types"):
            mods.add(og.__module__)  # a user-defined generic class is imported from (and stripped of) its own module
        for a in oracle.args(T):
            if isinstance(a, (list, tuple)):
                for x in a:
                    walk(x)
            else:
                walk(a)

    for T in types_:
        walk(T)
    return mods


def import_table(text):
    """module -> imported names, from the stub's own import block"""
    tab = {}
    for node in ast.parse(stubread.NESTED_HEADER.sub("class X:", text)).body:
        if isinstance(node, ast.ImportFrom):
            tab.setdefault(node.module, set()).update(a.name for a in node.names)
    return tab


def strip_remnants(text, mods=None):
    """remnants `R` such that some module M2 = R + M1 for another module M1 (M1 a textual suffix), both used by the signature
    at hand: stripping `M1.` from `M2.Cls` leaves `R` glued to what follows"""
    mods = set(mods if mods is not None else import_table(text)) | {"nmtarget"}
    if "io" in mods:
        mods.add("_io")  # C-level io classes live in `_io`; the import block spells it `io` but both prefixes are stripped
    out = set()
    for m1 in mods:
        for m2 in mods:
            if m1 != m2 and m2.endswith(m1):
                out.add(m2[: len(m2) - len(m1)])
    return out


def _prefix_strip_explains(stub, text, names, sigmods):
    """every unresolved name sits in an annotation of a function whose OWN signature uses two overlapping modules"""
    for n in names:
        ok = False
        for where, name, src in stub["unresolved"]:
            if name != n or where == "typeddict-class-body":
                continue
            for mods in sigmods.get(src, []):
                rem = strip_remnants(text, mods)
                if any(n == r.rstrip(".") or (not r.endswith(".") and n.startswith(r)) for r in rem):
                    ok = True
        if not ok:
            return False
    return bool(names)


def same_name_two_modules(text):
    tab = import_table(text)
    seen = {}
    for m, ns in tab.items():
        for n in ns:
            seen.setdefault(n, set()).add(m)
    import nmtarget
    out = {n for n, ms in seen.items() if len(ms) > 1}
    out |= {n for n in seen if n in vars(nmtarget) and not n.startswith("__")}
    return out


def _sigmods(stub, expect):
    """annotation source text -> module sets of the signatures it occurs in"""
    out = {}
    for fn, (at, rt, yt) in expect.items():
        qn = fn.__qualname__.split(".")
        infos = stub["funcs"].get((tuple(qn[:-1]), qn[-1]))
        if not infos:
            continue
        mods = signature_modules(list(at.values()) + [rt, yt])
        if any(p.default is None for p in inspect.signature(fn).parameters.values()):
            mods.add("typing")
        if yt is not None:
            mods.add("typing")
        for e in list(infos[0]["args"].values()) + [infos[0]["returns"]]:
            if e is not None:
                out.setdefault(e[0], []).append(mods)
    return out


def _cmp(ctx, spec, stub, entry, want, where, text, labels, mods=None):
    if entry is None:
        ctx.fail("C11/annotation-missing", spec, f"{where}: expected {oracle.show(want)}\n{text[:1200]}")
        return True
    src, ty = entry
    try:
        got = stubread.canon_of(ty, stub, {})
    except stubread.StubError as e:
        sig = f"C11/{e.kind}"
        if e.kind == "annotation-does-not-evaluate":
            sig = _explain(src, text, mods) or sig
        elif e.kind == "typeddict-class-body-does-not-evaluate":
            sig = "C11/name-in-generated-typeddict-class-body-not-provided"  # field text keeps its module prefix
        elif e.kind == "typeddict-class-name-collision":
            sig = "C11/generated-typeddict-class-names-collide"
        ctx.fail(sig, spec, f"{where}: {e}\n{text[:1200]}")
        return True
    if got != oracle.canon(want):
        sig = _explain(src, text, mods) or "C11/annotation-denotes-other-type"
        ctx.fail(sig, spec, f"{where}: `{src}` evaluates to {got}, rendered type was {oracle.show(want)}\n{text[:1200]}")
        return True
    return False


def _explain(src, text, mods=None):
    """listed findings that make an annotation evaluate wrongly; decided from the annotation text and the import block"""
    toks = {n.id for n in ast.walk(ast.parse(src, mode="eval")) if isinstance(n, ast.Name)}
    for n in ast.walk(ast.parse(src, mode="eval")):
        if isinstance(n, ast.Constant) and isinstance(n.value, str):
            try:
                toks |= {m.id for m in ast.walk(ast.parse(n.value, mode="eval")) if isinstance(m, ast.Name)}
            except SyntaxError:
                pass
    if toks & same_name_two_modules(text):
        return "C11/same-class-name-from-two-modules-collides"
    rem = strip_remnants(text, mods)
    if any(t == r.rstrip(".") or (not r.endswith(".") and t.startswith(r) and len(t) > len(r)) for t in toks for r in rem):
        return "C11/overlapping-module-name-prefix-stripped"
    return None


def shard(ctx):
    q = ctx.tier == "quick"

    def factory(ctx):
        @given(st.one_of(st.lists(trace_spec, min_size=1, max_size=3), st.lists(trace_spec, min_size=1, max_size=3),
                         st.tuples(twin_traces, st.lists(trace_spec, max_size=2)).map(lambda p: p[1][:1] + p[0] + p[1][1:])),
               st.sampled_from([0, 10]), st.sampled_from(["traces", "traces", "index-builder"]))
        def test(tspecs, k, route):
            check(ctx, tspecs, k, route)
        return test
    core.run_hypothesis(ctx, factory, 700 if q else 6000)


def run(ctx):
    core.run_sharded(ctx, __name__, "shard", 8 if ctx.tier == "quick" else 16)


def replay(ctx, case):
    check(ctx, case[1], case[2], case[3] if len(case) > 3 else "traces")
