"""Program synthesiser P: spec -> source of a module of functions of every kind, with inline recorded call
sites; plus the schedule strategy for the driver. The spec (JSON-able) is what Hypothesis draws and shrinks."""
from hypothesis import strategies as st

ARGSRC = ["1", "'s'", "None", "[1]", "[]", "{'a': 1}", "(1, 'x')", "S.Base()", "S.D1()", "1.5", "True", "[S.Base(), None]", "{}", "{1: 'v'}"]
KINDS = ["func", "method", "classmethod", "staticmethod", "property", "inherited", "override", "nested", "closure",
         "wrapped", "innerclass", "lambda", "setprop", "nested_static", "localwrap"]
# resolvability class of each kind (DESIGN 3.4)
MAY = {"lambda", "setprop", "nested_static"}
FLAVOUR_OK = {"func", "method", "classmethod", "staticmethod", "inherited", "wrapped", "innerclass", "override"}
EXITS = ["const", "constnone", "expr", "param", "implicit", "raise", "cond", "condnone"]
PK = ["posonly", "poskw", "kwonly"]


@st.composite
def params(draw, max_n=4):
    n = draw(st.integers(0, max_n))
    ps = [dict(kind=draw(st.sampled_from(PK)), default=draw(st.sampled_from([None, None, "None", "7", "'d'"]))) for _ in range(n)]
    order = {"posonly": 0, "poskw": 1, "kwonly": 2}
    ps.sort(key=lambda p: order[p["kind"]])
    seen_default = False
    for p in ps:
        if p["kind"] != "kwonly":
            if p["default"] is not None:
                seen_default = True
            elif seen_default:
                p["default"] = "0"
    for i, p in enumerate(ps):
        p["name"] = "p%d" % i
    return dict(ps=ps, varargs=draw(st.booleans()), varkw=draw(st.booleans()))


@st.composite
def function(draw, idx):
    kind = draw(st.sampled_from(KINDS))
    noparams = kind in ("property", "setprop")
    f = dict(idx=idx, kind=kind, params=dict(ps=[], varargs=False, varkw=False) if noparams else draw(params()))
    for j, p in enumerate(f["params"]["ps"]):
        p["name"] = "p%dx%d" % (idx, j)  # unique across the module: generated TypedDict class names derive from them
    f["anno"] = draw(st.sampled_from([False, False, True]))
    f["flavour"] = draw(st.sampled_from(["plain", "plain", "gen", "coro"])) if kind in FLAVOUR_OK else "plain"
    f["rebind"] = draw(st.sampled_from(["no", "no", "rebind", "del", "mutate"]))
    f["callee"] = draw(st.one_of(st.none(), st.integers(0, idx - 1))) if idx > 0 else None
    f["callee_args"] = draw(st.lists(st.sampled_from(ARGSRC + ["@p"]), max_size=3))
    f["catch"] = draw(st.booleans())
    f["recurse"] = draw(st.booleans()) and f["flavour"] == "plain" and kind in ("func", "method", "classmethod", "staticmethod")
    f["exit"] = draw(st.sampled_from(EXITS))
    # parameters / locals captured by a nested lambda become cell variables (a longer frame prologue before the first RESUME)
    f["capture"] = draw(st.sampled_from([0, 0, 1, 3]))
    f["yields"] = draw(st.lists(st.sampled_from(["@p", "1", "'y'", "None", "[1.5]", "{'a': 1}", "@cond", "@cond", "@from", "@from", "@loop", "@loop"]), max_size=4)) if f["flavour"] == "gen" else []
    f["awaits"] = draw(st.integers(0, 3)) if f["flavour"] == "coro" else 0
    return f


@st.composite
def program(draw, max_funcs=5, max_ops=8, valstrat=None):
    n = draw(st.integers(1, max_funcs))
    funcs = [draw(function(i)) for i in range(n)]
    vs = valstrat or st.sampled_from([["lit", 1], ["lit", "s"], ["lit", None], ["list", [["lit", 1]]], ["list", []],
                                      ["dict", [[["lit", "a"], ["lit", 1]]]], ["tuple", [["lit", 1], ["lit", "x"]]],
                                      ["inst", "Base"], ["inst", "D1"], ["lit", 1.5], ["dict", []], ["set", [["lit", 1]]]])
    op = st.one_of(
        st.tuples(st.just("call"), st.integers(0, n - 1), st.lists(vs, max_size=6)),
        st.tuples(st.sampled_from(["next", "next", "next", "close", "throw", "leave", "drop", "callkept"]), st.integers(0, 7)),
    )
    ops = draw(st.lists(op.map(list), min_size=1, max_size=max_ops))
    return dict(funcs=funcs, ops=ops, fuel=draw(st.integers(0, 3)), drain=draw(st.booleans()),
                repeat=draw(st.sampled_from([1, 1, 1, 2, 4, 12])), warmup=draw(st.booleans()))


# ---------------------------------------------------------------------------------------------
def sig_src(f, receiver=None):
    parts = []
    ps = f["params"]["ps"]
    pos = [p for p in ps if p["kind"] == "posonly"]
    pk = [p for p in ps if p["kind"] == "poskw"]
    kw = [p for p in ps if p["kind"] == "kwonly"]

    def fmt(p):
        if f.get("anno") and f["kind"] != "lambda":
            return p["name"] + ": object" + (" = " + p["default"] if p["default"] is not None else "")
        return p["name"] + ("=" + p["default"] if p["default"] is not None else "")

    if receiver:
        parts.append(receiver)
    if pos:
        parts += [fmt(p) for p in pos]
        parts.append("/")
    parts += [fmt(p) for p in pk]
    if f["params"]["varargs"]:
        parts.append("*va")
    elif kw:
        parts.append("*")
    parts += [fmt(p) for p in kw]
    if f["params"]["varkw"]:
        parts.append("**vk")
    return ", ".join(parts)


def ret_src(f):
    return " -> object" if f.get("anno") else ""


def distribute(f, vals_):
    """spread a list of values (or source strings) over f's parameters legally -> (positional, keyword)"""
    ps = f["params"]["ps"]
    vals_ = list(vals_)
    pos_args, kw_args = [], {}
    filler = "0" if (vals_ and isinstance(vals_[0], str)) or not vals_ else 0
    stopped = False
    for p in ps:
        if p["kind"] in ("posonly", "poskw"):
            if vals_:
                pos_args.append(vals_.pop(0))
            elif p["default"] is None:
                pos_args.append(filler)
            else:
                stopped = True
                break
    for p in ps:
        if p["kind"] == "kwonly":
            if vals_:
                kw_args[p["name"]] = vals_.pop(0)
            elif p["default"] is None:
                kw_args[p["name"]] = filler
    if f["params"]["varargs"] and vals_ and not stopped:
        pos_args.append(vals_.pop(0))
        if vals_:
            pos_args.append(vals_.pop(0))
    if f["params"]["varkw"] and vals_:
        kw_args["extra"] = vals_.pop(0)
    return pos_args, kw_args


def target(g):
    """(call expression template using {recv}, function-object expression, receiver source or None)"""
    i, kd = g["idx"], g["kind"]
    if kd in ("func", "lambda"):
        return f"F{i}", f"F{i}", None
    if kd == "wrapped":
        return f"F{i}", f"F{i}.__wrapped__", None
    if kd == "localwrap":
        # a functools.wraps wrapper defined in the traced module, called through a local of the calling frame (a callback):
        # the wrapper's own call is a call of a resolvable function (its object is a callable local on the stack)
        return f"_f{i}", f"_f{i}", None
    if kd in ("nested", "closure"):
        return f"F{i}", f"F{i}", None
    if kd == "method":
        return f"_o.F{i}", f"K.F{i}", "K()"
    if kd == "inherited":
        return f"_o.F{i}", f"KB.F{i}", "K()"
    if kd == "override":
        return f"_o.F{i}", f"K.F{i}", "K()"
    if kd == "classmethod":
        return f"K.F{i}", f"K.__dict__['F{i}'].__func__", "K"
    if kd == "staticmethod":
        return f"K.F{i}", f"K.__dict__['F{i}'].__func__", None
    if kd in ("property", "setprop"):
        return f"_o.F{i}", f"K.__dict__['F{i}'].fget", "K()"
    if kd == "innerclass":
        return f"_o.F{i}", f"K.Inner.F{i}", "K.Inner()"
    if kd == "nested_static":
        return f"K.Inner.F{i}", f"K.Inner.__dict__['F{i}'].__func__", None
    raise ValueError(kd)


def expected_qualname(g):
    i, kd = g["idx"], g["kind"]
    if kd in ("func", "wrapped", "nested", "closure", "localwrap"):
        return f"F{i}"
    if kd == "lambda":
        return "<lambda>"
    if kd == "inherited":
        return f"KB.F{i}"
    if kd in ("innerclass", "nested_static"):
        return f"K.Inner.F{i}"
    return f"K.F{i}"


def callsite(g, pos_args, kw_args, ind, catch, star=False):
    """inline recorded call of plain-flavoured g; result in _r. With star=True the arguments are *_a, **_k."""
    tgt, fnobj, recv = target(g)
    S = []
    if g["kind"] == "localwrap":
        S.append(f"{ind}_f{g['idx']} = F{g['idx']}")
    if recv:
        S.append(f"{ind}_o = {recv}")
        rfirst = "_o" if recv != "K" else "K"
    if star:
        tup = (f"({rfirst},) + tuple(_a)" if recv else "tuple(_a)")
        kws = "_k"
        call = tgt if g["kind"] in ("property", "setprop") else f"{tgt}(*_a, **_k)"
    else:
        rargs = ([rfirst] if recv else []) + list(pos_args)
        tup = "(" + "".join(a + ", " for a in rargs) + ")"
        kws = "{" + ", ".join(f"{k!r}: {v}" for k, v in kw_args.items()) + "}"
        call = tgt if g["kind"] in ("property", "setprop") else f"{tgt}(" + ", ".join(list(pos_args) + [f"{k}={v}" for k, v in kw_args.items()]) + ")"
    S.append(f"{ind}_c = S.R.pre({fnobj}, {tup}, {kws})")
    S.append(f"{ind}try:")
    S.append(f"{ind}    _r = {call}")
    S.append(f"{ind}except BaseException as _e:")
    S.append(f"{ind}    S.R.exc(_c, _e)")
    S.append(f"{ind}    " + ("_r = None" if catch else "raise"))
    S.append(f"{ind}else:")
    S.append(f"{ind}    S.R.post(_c, _r)")
    return S


def render(prog):
    funcs = prog["funcs"]
    L = ["import mtv_support as S", ""]
    top, kb, k, inner = [], [], [], []
    kr = []  # root class above KB: namesakes (never called) of overridden and static methods, defined FIRST in the module

    def body(f, ind):
        B = []
        ps = f["params"]["ps"]
        first = ps[0]["name"] if ps else None
        if f.get("capture") and f["rebind"] != "del":
            names = [p["name"] for p in ps][: f["capture"]]
            for j in range(f["capture"] - len(names)):
                B.append(f"{ind}_l{j} = {j}")
                names.append(f"_l{j}")
            B.append(f"{ind}_cap = lambda: ({', '.join(names)},)")
        if f["recurse"]:
            # recursion with a fuel counter kept by the recorder
            pos_args, kw_args = distribute(f, [first] * 1 if first else [])
            B.append(f"{ind}if S.R.fuel():")
            B += callsite(f, pos_args, kw_args, ind + "    ", catch=True)
        if f["callee"] is not None:
            g = funcs[f["callee"]]
            if g["flavour"] == "plain":
                av = [(first or "0") if a == "@p" else a for a in f["callee_args"]]
                pos_args, kw_args = distribute(g, av)
                B += callsite(g, pos_args, kw_args, ind, catch=f["catch"])
        if f["flavour"] == "gen":
            for y in f["yields"]:
                # "@cond": the yielded type depends on the argument's value, not on its type
                yv = (first or "0") if y == "@p" else (f"(1 if {first} else 's')" if first else "1.5") if y == "@cond" else y
                if y == "@loop":
                    # a bare yield inside try/except: an exception thrown in is handled and the generator suspends again at the
                    # very same yield (the consumer pattern `while True: try: yield / except Reset: continue`)
                    B += [f"{ind}while True:", f"{ind}    try:", f"{ind}        yield", f"{ind}    except S.Thrown:", f"{ind}        continue", f"{ind}    break"]
                    continue
                if y == "@from":
                    # delegation: the values relayed by `yield from` are yielded by this generator
                    B.append(f"{ind}_n = yield from S.relay((b'relayed', 2.5, {first or 0}))")
                else:
                    B.append(f"{ind}yield {yv}")
                if f["rebind"] == "rebind" and first:
                    B.append(f"{ind}{first} = ('rebound', {first})")
                if f["rebind"] == "mutate" and first:
                    B.append(f"{ind}S.mutate({first})")
            if not f["yields"]:
                B.append(f"{ind}if False:")
                B.append(f"{ind}    yield 0")
        elif f["rebind"] == "rebind" and first and f["flavour"] == "plain":
            B.append(f"{ind}{first} = ('rebound', {first})")
        elif f["rebind"] == "mutate" and first and f["flavour"] == "plain":
            # the argument object is changed in place (and possibly handed back): its type at the exit is not its type at the call
            B.append(f"{ind}S.mutate({first})")
        if f["flavour"] == "coro":
            for i in range(f["awaits"]):
                B.append(f"{ind}await S.Suspend({i})")
                if f["rebind"] == "rebind" and first:
                    B.append(f"{ind}{first} = ('rebound', {first})")
        e = f["exit"]
        ret_first = first if f["rebind"] != "del" else None
        if f["rebind"] == "del" and first:
            B.append(f"{ind}del {first}")
        if e == "const":
            B.append(f"{ind}return 42")
        elif e == "constnone":
            B.append(f"{ind}return None")
        elif e == "expr":
            B.append(f"{ind}return [{ret_first or 1}]")
        elif e == "param":
            B.append(f"{ind}return {ret_first}" if ret_first else f"{ind}return (1, 2)")
        elif e == "cond":
            B.append(f"{ind}return (1 if {ret_first} else 's')" if ret_first else f"{ind}return 1.5")
        elif e == "condnone":
            # returns a value in some calls and None in others (for a generator: `return <value>` vs falling off the end)
            B.append(f"{ind}if {ret_first}:" if ret_first else f"{ind}if S.R.fuel_left:")
            B.append(f"{ind}    return 'value'")
        elif e == "raise":
            B.append(f"{ind}raise S.BadExit('x')")
        elif e == "implicit":
            B.append(f"{ind}pass")
        return B

    for f in funcs:
        i, kd = f["idx"], f["kind"]
        a = "async " if f["flavour"] == "coro" else ""
        if kd == "localwrap":
            top += [f"def _mtv_deco{i}(fn):", "    @S.functools.wraps(fn)", "    def wrapper(*a, **k):", "        _c = S.R.pre(fn, a, k)", "        try:",
                    "            _r = fn(*a, **k)", "        except BaseException as _e:", "            S.R.exc(_c, _e)", "            raise",
                    "        S.R.post(_c, _r)", "        return _r", "    return wrapper"]
            top += [f"@_mtv_deco{i}"] * (1 + f["idx"] % 2)
            top.append(f"def F{i}({sig_src(f)}){ret_src(f)}:")
            top += body(f, "    ")
        elif kd in ("func", "wrapped"):
            if kd == "wrapped":
                top.append("@S.deco")
            top.append(f"{a}def F{i}({sig_src(f)}){ret_src(f)}:")
            top += body(f, "    ")
        elif kd == "lambda":
            ps = f["params"]["ps"]
            first = ps[0]["name"] if ps else None
            top.append(f"F{i} = lambda {sig_src(f)}: " + (f"[{first}]" if first else "42"))
        elif kd in ("nested", "closure"):
            # outer F{i} defines `inner` and calls it (recorded) while its own frame is on the stack
            ps = f["params"]["ps"]
            first = ps[0]["name"] if ps else None
            top.append(f"def F{i}({sig_src(f)}):")
            if kd == "closure" and first:
                top.append(f"    def inner(x=None, *, y=0):")
                top.append(f"        return ({first}, x, y)")
                top.append(f"    _c = S.R.pre(inner, (1,), {{'y': 's'}})")
                top.append(f"    try:")
                top.append(f"        _r = inner(1, y='s')")
            else:
                top.append(f"    def inner(x=None, *, y=0):")
                top.append(f"        return [x, y]")
                top.append(f"    _c = S.R.pre(inner, ([],), {{}})")
                top.append(f"    try:")
                top.append(f"        _r = inner([])")
            top.append(f"    except BaseException as _e:")
            top.append(f"        S.R.exc(_c, _e)")
            top.append(f"        raise")
            top.append(f"    S.R.post(_c, _r)")
            top.append(f"    S.R.keep(inner)")
            top += body(f, "    ")
        else:
            dec = {"classmethod": "@classmethod", "staticmethod": "@staticmethod", "property": "@property", "setprop": "@property",
                   "nested_static": "@staticmethod"}.get(kd)
            recv = {"classmethod": "cls", "staticmethod": None, "nested_static": None}.get(kd, "self")
            dest = kb if kd == "inherited" else inner if kd in ("innerclass", "nested_static") else k
            pad = "        " if dest is inner else "    "
            if dec:
                dest.append(pad + dec)
            dest.append(f"{pad}{a}def F{i}({sig_src(f, recv)}){ret_src(f)}:")
            if kd == "override":
                # call the base implementation through super(), recorded
                pos_args, kw_args = distribute(f, [])
                dest.append(f"{pad}    _c = S.R.pre(KB.F{i}, (self, " + "".join(x + ", " for x in pos_args) + "), {" + ", ".join(f"{k2!r}: {v}" for k2, v in kw_args.items()) + "})")
                dest.append(f"{pad}    try:")
                dest.append(f"{pad}        _r = super().F{i}(" + ", ".join(list(pos_args) + [f"{k2}={v}" for k2, v in kw_args.items()]) + ")")
                dest.append(f"{pad}    except BaseException as _e:")
                dest.append(f"{pad}        S.R.exc(_c, _e)")
                dest.append(f"{pad}        raise")
                dest.append(f"{pad}    S.R.post(_c, _r)")
                kb.append(f"    def F{i}({sig_src(f, recv)}):")
                kb.append("        return 'base'")
                kr.append(f"    def F{i}(self, *a, **k):")
                kr.append("        return 'root'")
            if kd == "staticmethod":
                kr.append("    @staticmethod")
                kr.append(f"    def F{i}(*a, **k):")
                kr.append("        return 'root'")
            dest += body(f, pad + "    ")
            if kd == "setprop":
                dest.append(f"{pad}@F{i}.setter")
                dest.append(f"{pad}def F{i}(self, v):")
                dest.append(f"{pad}    pass")
    L += top
    L.append("class KR:")
    L += kr or ["    pass"]
    L.append("class KB(KR):")
    L += kb or ["    pass"]
    L.append("class K(KB):")
    L += k or ["    pass"]
    L.append("    class Inner:")
    L += inner or ["        pass"]
    # invokers for the driver: `_mtv_call_<i>(_a, _k)`; excluded from tracing by their name prefix
    for f in funcs:
        i = f["idx"]
        L.append(f"def _mtv_call_{i}(_a, _k):")
        if f["flavour"] == "plain":
            L += callsite(f, None, None, "    ", catch=False, star=True)
            L.append("    return _r")
        else:
            tgt, fnobj, recv = target(f)
            if recv:
                L.append(f"    _o = {recv}")
                tup = "(" + ("_o" if recv != "K" else "K") + ",) + tuple(_a)"
            else:
                tup = "tuple(_a)"
            L.append(f"    _c = S.R.pre({fnobj}, {tup}, _k, kind={'gen' if f['flavour'] == 'gen' else 'coro'!r})")
            L.append(f"    return _c, {tgt}(*_a, **_k)")
    return "\n".join(L) + "\n"
