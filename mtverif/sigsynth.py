"""Signature-module synthesiser for C12/C13: modules of functions/methods of every kind with every parameter-kind
combination, optional source annotations, long names; plus synthesised CallTraces for a drawn traced subset."""
import importlib
from typing import Dict, List, Optional, Union

from hypothesis import strategies as st

from monkeytype.tracing import CallTrace
from monkeytype.typing import make_typed_dict

ANNOS = [None, None, None, "int", "List[int]", "Optional[str]", '"Helper"', "UserId", 'Dict[str, "Helper"]',
         # source annotations that a type rewriter WOULD change if it were (wrongly) applied to them
         "Generator[int, None, None]", "Union[int, str, float, bytes, bool, None, List[int]]", "Union[Dict[str, int], Dict[str, str]]",
         "Union[List[Any], List[int]]"]
WHERE = ["top", "method", "classmethod", "staticmethod", "property", "inner", "deep", "async", "gen", "asyncmethod", "genmethod",
         "subclassmethod", "substaticmethod", "subproperty", "typescoro"]
NAMES = ["a", "b", "cc", "data", "x1", "q", "long_parameter_name_number_one", "another_rather_long_parameter_name",
         "yet_another_very_long_parameter_name_to_force_wrapping", "value_with_a_name_that_is_forty_chars_long",
         # names that begin like a module the stub strips from annotations (`typing.`, `fxh.`)
         "typing_x", "fxh_item"]
FNAMES = ["f", "g", "compute_something_rather_long_named_function", "h",
          # long enough that `def name() -> ret` alone exceeds the 120 columns (the wrapped layout of an EMPTY parameter list)
          "a_function_name_that_is_long_enough_that_its_definition_line_does_not_fit_in_one_hundred_and_twenty_columns_even_without_parameters"]
HEADER = ("from typing import *\nfrom fxh import Base as Helper\nUserId = NewType('UserId', int)\n\n"
          "import functools, types\n\ndef wrapdeco(f):\n    @functools.wraps(f)\n    def wrapper(*a, **k):\n        return f(*a, **k)\n    return wrapper\n\n"
          "class myclassmethod(classmethod):\n    pass\n\nclass mystaticmethod(staticmethod):\n    pass\n\nclass myproperty(property):\n    pass\n\n")


def traced_types():
    import fxh
    return [None, int, str, List[int], Optional[float], fxh.D1, Dict[str, int], type(None), Dict[str, List[Dict[str, Optional[int]]]],
            ("TD", ("alpha", "beta")), ("TD", ("my-key", "class")), fxh.Registry,  # Registry: a class that is FALSY (its metaclass defines __len__)
            # six unrelated members: the default rewriter chain turns this into Any (which then IS the traced type)
            Union[int, str, float, bytes, complex, fxh.D1]]


N_TRACED = 13


@st.composite
def func(draw, i):
    n = draw(st.integers(0, 8 if draw(st.integers(0, 4)) == 0 else 4))
    nm = draw(st.lists(st.sampled_from(NAMES), min_size=n, max_size=n, unique=True))
    kinds = sorted(draw(st.lists(st.sampled_from([0, 1, 1, 2]), min_size=n, max_size=n)))
    ps = []
    seen_def = False
    for name, kd in zip(nm, kinds):
        d = draw(st.sampled_from([None, None, "None", "1", '"s"']))
        if kd != 2:
            if d is not None:
                seen_def = True
            elif seen_def:
                d = "None"
        ps.append(dict(name=name, kind=kd, default=d, anno=draw(st.sampled_from(ANNOS)),
                       traced=draw(st.sampled_from([0, 0, 1, 2, 3, 4, 5, 6, 7, 8, 9, 9, 10, 11, 11, 12]))))
    where = draw(st.sampled_from(WHERE))
    if ps and where in ("top", "async", "gen", "staticmethod", "substaticmethod") and draw(st.integers(0, 5)) == 0:
        # an ordinary first parameter that merely LOOKS like a receiver: a module-level function or static method has none
        ps[0]["name"] = draw(st.sampled_from(["self", "cls"]))
    f = dict(i=i, ps=ps if where not in ("property", "subproperty") else [], varargs=draw(st.sampled_from([None, None, "args"])) if where not in ("property", "subproperty") else None,
                varkw=draw(st.sampled_from([None, None, "kwargs"])) if where not in ("property", "subproperty") else None, where=where,
                second_trace=draw(st.sampled_from([None, None, "exception", "exception", "other-return"])),
                wrapdeco=draw(st.sampled_from([False, False, False, True])),
                ret_anno=draw(st.sampled_from(ANNOS)), outcome=draw(st.sampled_from(["return", "yield", "yield+return", "yield+none", "exception"])),
                ret_traced=draw(st.sampled_from([1, 2, 3, 5, 6, 9, 11, 12])), yield_traced=draw(st.sampled_from([1, 2, 3, 5, 11])),
                recv_anno=draw(st.sampled_from([None, None, '"K"', "Any"])),
                is_traced=draw(st.sampled_from([True, True, True, False])), fname=draw(st.sampled_from(FNAMES)) + str(i))
    if f["where"] in ("top", "async", "gen", "typescoro") and f["ret_traced"] == 9:
        # a module-level function with a "private" name: two leading underscores, no trailing ones (no mangling outside classes)
        f["fname"] = "__private_%d" % i
    return f


@st.composite
def module(draw, max_funcs=4):
    n = draw(st.integers(1, max_funcs))
    fs = [draw(func(i)) for i in range(n)]
    if draw(st.integers(0, 4)) == 0:
        # a twin: the same function again (same place, same name length, same parameters, annotations, defaults and traced
        # types) except that its keyword-only parameters come in the opposite order - two signatures that compare equal
        # under inspect.Signature.__eq__, which ignores the order of keyword-only parameters
        import copy
        base = draw(st.sampled_from([f for f in fs if f["where"] not in ("property", "subproperty")] or fs))
        if base["where"] not in ("property", "subproperty"):
            kw = [p for p in base["ps"] if p["kind"] == 2]
            used = {p["name"] for p in base["ps"]}
            for name in ("kwx", "kwy"):
                if len(kw) < 2 and name not in used:
                    p = dict(name=name, kind=2, default=draw(st.sampled_from([None, "None", "1"])), anno=draw(st.sampled_from(ANNOS)), traced=draw(st.sampled_from([0, 1, 2, 5])))
                    base["ps"].append(p)
                    kw.append(p)
            twin = copy.deepcopy(base)
            twin["i"] = n
            twin["fname"] = base["fname"][: -len(str(base["i"]))] + str(n)
            rest = [p for p in twin["ps"] if p["kind"] != 2]
            twin["ps"] = rest + list(reversed([p for p in twin["ps"] if p["kind"] == 2]))
            twin["is_traced"] = base["is_traced"] = True
            fs.append(twin)
    return fs


def sig(f, recv):
    pos = [p for p in f["ps"] if p["kind"] == 0]
    pk = [p for p in f["ps"] if p["kind"] == 1]
    kw = [p for p in f["ps"] if p["kind"] == 2]

    def fmt(p):
        return p["name"] + (": " + p["anno"] if p["anno"] else "") + ((" = " if p["anno"] else "=") + p["default"] if p["default"] is not None else "")

    parts = [recv + ((": " + f["recv_anno"]) if f.get("recv_anno") and f.get("_annotate_receiver") and recv in ("self",) else "")] if recv else []
    if pos:
        parts += [fmt(p) for p in pos] + ["/"]
    parts += [fmt(p) for p in pk]
    # functions whose return is annotated in the source also annotate their variadic parameters
    if f["varargs"]:
        parts.append("*" + f["varargs"] + (": int" if f["ret_anno"] else ""))
    elif kw:
        parts.append("*")
    parts += [fmt(p) for p in kw]
    if f["varkw"]:
        parts.append("**" + f["varkw"] + (": str" if f["ret_anno"] else ""))
    return ", ".join(parts)


def render(funcs, annotate_receiver=False):
    L = [HEADER]
    top, cls, inner, deep = [], [], [], []
    for f in funcs:
        f["_annotate_receiver"] = annotate_receiver
        w = f["where"]
        ret = (" -> " + f["ret_anno"]) if f["ret_anno"] else ""
        gen = w in ("gen", "genmethod")
        body = "yield 1" if gen else "pass"
        a = "async " if w in ("async", "asyncmethod") else ""
        wd = "@wrapdeco\n" if f.get("wrapdeco") and w in ("top", "async", "gen") else ""
        wdm = "    @wrapdeco\n" if f.get("wrapdeco") and w in ("method", "asyncmethod", "genmethod") else ""
        if w == "typescoro":
            # a generator-based coroutine (@types.coroutine): awaitable, but NOT a coroutine function - a plain `def` in a stub
            top.append(f"@types.coroutine\ndef {f['fname']}({sig(f, None)}){ret}:\n    yield 1\n")
        elif w in ("top", "async", "gen"):
            top.append(f"{wd}{a}def {f['fname']}({sig(f, None)}){ret}:\n    {body}\n")
        elif w == "inner":
            inner.append(f"        def {f['fname']}({sig(f, 'self')}){ret}:\n            pass\n")
        elif w == "deep":
            deep.append(f"            def {f['fname']}({sig(f, 'self')}){ret}:\n                pass\n")
        else:
            dec = {"classmethod": "    @classmethod\n", "staticmethod": "    @staticmethod\n", "property": "    @property\n",
                   "subclassmethod": "    @myclassmethod\n", "substaticmethod": "    @mystaticmethod\n", "subproperty": "    @myproperty\n"}.get(w, "")
            recv = {"classmethod": "cls", "staticmethod": None, "subclassmethod": "cls", "substaticmethod": None}.get(w, "self")
            cls.append(dec + wdm + f"    {a}def {f['fname']}({sig(f, recv)}){ret}:\n        {body}\n")
    L += top
    L.append("class K:")
    L += cls or ["    pass"]
    L.append("    class Inner:")
    L += inner or ["        pass"]
    L.append("        class Deep:")
    L += deep or ["            pass"]
    return "\n".join(L) + "\n"


def live_function(mod, f):
    w = f["where"]
    if w in ("top", "async", "gen", "typescoro"):
        fn = getattr(mod, f["fname"])
        return getattr(fn, "__wrapped__", fn), ()  # the tracer attributes a decorated call to the function whose code ran
    if w == "inner":
        return getattr(mod.K.Inner, f["fname"]), ("K", "Inner")
    if w == "deep":
        return getattr(mod.K.Inner.Deep, f["fname"]), ("K", "Inner", "Deep")
    raw = mod.K.__dict__[f["fname"]]
    fn = raw.__func__ if w in ("classmethod", "staticmethod", "subclassmethod", "substaticmethod") else (raw.fget if w in ("property", "subproperty") else raw)
    return getattr(fn, "__wrapped__", fn), ("K",)


def resolve_traced(idx, k=3):
    t = traced_types()[idx]
    if isinstance(t, tuple) and t and t[0] == "TD":
        if k == 0:
            return Dict[str, int]  # with the limit at zero no TypedDict ever reaches the stub generator
        return make_typed_dict(required_fields={k: int for k in t[1]})
    return t


def traces_for(mod, funcs, k=3):
    """CallTraces for the traced subset; returns (traces, live) with live[(classpath, name)] = (fn, f, arg_types, ret, yield)"""
    traces, live = [], {}
    for f in funcs:
        if not f["is_traced"]:
            continue
        fn, path = live_function(mod, f)
        at = {p["name"]: resolve_traced(p["traced"], k) for p in f["ps"] if p["traced"] != 0}
        if path and f["where"] not in ("staticmethod", "substaticmethod"):
            # the tracer records the receiver too (its type must never be rendered)
            klass = mod
            for part in path:
                klass = getattr(klass, part)
            if f["where"] in ("classmethod", "subclassmethod"):
                from typing import Type
                at["cls"] = Type[klass]
            else:
                at["self"] = klass
        oc = f["outcome"]
        rt = resolve_traced(f["ret_traced"], k) if oc in ("return", "yield+return") else (type(None) if oc == "yield+none" else None)
        yt = resolve_traced(f["yield_traced"], k) if oc.startswith("yield") else None
        traces.append(CallTrace(fn, at, rt, yt))
        # a second trace of another shape for the same function: the call raised (nothing returned, nothing yielded), or
        # returned the same type again; absent return/yield of one trace must not leak into the merged annotation
        if f.get("second_trace") == "exception":
            traces.append(CallTrace(fn, dict(at), None, None))
        elif f.get("second_trace") == "other-return" and rt is not None:
            traces.append(CallTrace(fn, {}, rt, yt))
        live[(path, f["fname"])] = (fn, f, at, rt, yt)
    return traces, live


def uses_hostile(funcs):
    return any(p["traced"] == 10 for f in funcs if f["is_traced"] for p in f["ps"])


def uses_nested(funcs):
    return any(f["where"] in ("inner", "deep") and f["is_traced"] for f in funcs)
