"""C06 - the TypedDict size limit is honoured end to end; zero disables TypedDicts."""
import ast
import collections
import io
import os
import shutil
import sqlite3
import tempfile
from typing import Any, Union

from hypothesis import given, strategies as st

import monkeytype
from monkeytype import cli
from monkeytype.db.sqlite import SQLiteStore
from monkeytype.typing import get_type

from . import core, tinfer, vals
from .oracle import args, is_anon_td, origin, show, td_fields, _member

LEVEL = "exploration"
RULE = ("dict-rich grammar values (dicts of 0..12 str / non-str / mixed keys nested in every container kind, record "
        "profiles forcing second-level merges) in multisets of 1..5, k in {0,1,2,3,10} and relative to the case; "
        "stage 1 get_type/shrink_types, stage 2 the same values through real tracing + SQLite + decode (rows also read "
        "raw), stage 3 the module stub printed by the CLI. Non-trivial: some dict has > k keys, or the union of keys "
        "of merged dicts exceeds k, or a dict nested >= 2 deep; distinct by digest of (values, k).")
ASSUMPTIONS = ["identifier-like dict keys only (hostile keys break stub syntax: known finding under C12)",
               "a limit lowered between recording and stubbing is judged on dicts passed directly (top-level positions) only"]

KS = [0, 1, 2, 3, 10]


def td_nodes(t):
    out = []
    if is_anon_td(t):
        out.append(t)
        r, o = td_fields(t)
        for f in list(r.values()) + list(o.values()):
            out += td_nodes(f)
        return out
    if origin(t) is not None:
        for m in args(t):
            if m is not Ellipsis and not isinstance(m, (list, tuple)):
                out += td_nodes(m)
    return out


def member_td_nonempty(v, t):
    """membership in which a TypedDict alternative never admits an empty dict"""
    if is_anon_td(t):
        if not isinstance(v, dict) or len(v) == 0:
            return False
        r, o = td_fields(t)
        ks = set(v.keys())
        return (all(isinstance(k, str) for k in ks) and set(r) <= ks <= set(r) | set(o)
                and all(member_td_nonempty(v[k], r[k] if k in r else o[k]) for k in ks))
    if t is Any:
        return True
    o = origin(t)
    if o is Union:
        return any(member_td_nonempty(v, m) for m in args(t))
    a = args(t)
    if o in (list, set) and isinstance(v, o):
        return all(member_td_nonempty(e, a[0]) for e in v)
    if o in (dict, collections.defaultdict) and isinstance(v, o):
        return all(member_td_nonempty(k, a[0]) and member_td_nonempty(x, a[1]) for k, x in v.items())
    if o is tuple and isinstance(v, tuple) and a and Ellipsis not in a and len(a) == len(v):
        return all(member_td_nonempty(e, x) for e, x in zip(v, a))
    return _member(v, t, False)


def check_types(ctx, spec, types_and_values, k, stage):
    for T, vs in types_and_values:
        nodes = td_nodes(T)
        if k == 0 and nodes:
            return ctx.fail(f"C06/{stage}:typeddict-with-limit-zero", spec, f"{show(T)} contains a TypedDict although k=0")
        for n in nodes:
            r, o = td_fields(n)
            size = len(r) + len(o)
            if size == 0:
                return ctx.fail(f"C06/{stage}:empty-typeddict", spec, f"{show(T)} contains an empty TypedDict")
            if size > k:
                return ctx.fail(f"C06/{stage}:typeddict-over-limit", spec, f"{show(T)} has a TypedDict with {size} keys, limit {k}")
            if any(not isinstance(x, str) for x in list(r) + list(o)):
                return ctx.fail(f"C06/{stage}:non-string-field", spec, f"{show(T)} has a TypedDict field that is not a string")
        for v in vs:
            if not member_td_nonempty(v, T):
                if _member(v, T, False):
                    return ctx.fail(f"C06/{stage}:empty-or-nonstr-dict-as-typeddict", spec,
                                    f"{v!r} is admitted by {show(T)} only through a TypedDict alternative that an empty / non-str-keyed dict inhabits")
                # plain non-membership is C04's


def nontrivial(specs, k):
    sizes, allkeys, deep = [], set(), [False]

    def walk(s, d):
        if s[0] == "dict":
            ks = [a[1] for a, _ in s[1] if a[0] == "lit" and isinstance(a[1], str)]
            sizes.append(len(s[1]))
            allkeys.update(ks)
            if d >= 2:
                deep[0] = True
            for a, b in s[1]:
                walk(b, d + 1)
        elif s[0] in ("list", "tuple", "set"):
            for e in s[1]:
                walk(e, d + 1)
        elif s[0] == "ddict":
            for a, b in s[1]:
                walk(b, d + 1)

    for s in specs:
        walk(s, 0)
    return bool(sizes) and (max(sizes) > k or len(allkeys) > k or deep[0])


# ---- stage 2/3 --------------------------------------------------------------------------------
class E2E:
    def __init__(self):
        self.dir = tempfile.mkdtemp(prefix="c06-")
        self.n = 0

    def close(self):
        shutil.rmtree(self.dir, ignore_errors=True)

    def run(self, ctx, specs, k, rw):
        import fx_cfg
        import fx_target
        self.n += 1
        db = os.path.join(self.dir, f"db{self.n}.sqlite3")
        os.environ.update(MTV_DB=db, MTV_K=str(k), MTV_RW=rw)
        os.environ.pop("MTV_RATE", None)
        spec = ["E2E", specs, k, rw]
        vs = [vals.build(s) for s in specs]
        try:
            # an earlier tracing session of the same process, configured with ANOTHER limit and its own database: every
            # session must use the limit of the configuration it was started with
            prime_db = os.path.join(self.dir, f"prime{self.n}.sqlite3")
            os.environ.update(MTV_DB=prime_db, MTV_K=str(10 if k != 10 else 1))
            with monkeytype.trace(fx_cfg.CONFIG):
                fx_target.ident({"a": 1, "b": "x"})
                fx_target.second({"a": 1}, {"b": "x", "c": 1})
                fx_target.second({"d": 1.5}, {"b": "y"})
                # a generator that takes its first step in this session and is finished in the next one (a request handler
                # that outlives the block): whatever the next session records of it obeys the next session's limit
                spanning = fx_target.gen_span({"q": 1, "r": "x", "s": 2.0, "t": None})
                next(spanning)
            if k < 10:
                # the option was lowered (or switched off) after those traces were recorded and the store was kept: a stub
                # generated NOW obeys the limit in force now. (Only dicts passed directly are judged: the statement speaks of
                # "every generated TypedDict", and what is generated at stub time are the merged top-level types.)
                os.environ.update(MTV_DB=prime_db, MTV_K=str(k))
                out, err = io.StringIO(), io.StringIO()
                try:
                    rc = cli.main(["-c", "fx_cfg:CONFIG", "stub", "fx_target"], out, err)
                    text = out.getvalue()
                except Exception:
                    rc, text = 1, ""
                ctx.label("stub-under-a-lower-limit-than-recorded")
                if rc == 0 and text.strip():
                    bad = None
                    if k == 0 and "TypedDict" in text:
                        bad = "the stub mentions TypedDict although the limit is 0 now"
                    elif k > 0:
                        try:
                            tree = ast.parse(text)
                            for c in [n for n in tree.body if isinstance(n, ast.ClassDef) and n.bases]:
                                nf = sum(isinstance(b, ast.AnnAssign) for b in c.body)
                                if nf > k:
                                    bad = f"class {c.name} has {nf} fields, the limit is {k} now"
                        except SyntaxError:
                            pass
                    if bad:
                        os.unlink(prime_db)
                        return ctx.fail("C06/stub:typeddict-class-over-limit" if k else "C06/stub:typeddict-with-limit-zero", spec + ["recorded-with-limit-10"],
                                        f"traces recorded with limit 10, stub generated with limit {k}: {bad}\n{text[:700]}")
            os.unlink(prime_db)
            os.environ.update(MTV_DB=db, MTV_K=str(k))
            with monkeytype.trace(fx_cfg.CONFIG):
                for i, v in enumerate(vs):
                    fx_target.ident(v)
                    fx_target.boxed(v)
                    if i + 1 < len(vs):
                        list(fx_target.gen(v, vs[i + 1]))
                    fx_target.C().m(v)
                spanned = list(spanning)
                ctx.label("generator-spanning-two-sessions")
                # functions that change the dict they were given in place and hand the same object back: what they return
                # is an empty / integer-keyed dict, whatever it was when the call started
                handed_back = {"emptied": [], "rekeyed": [], "gen_emptied": []}
                for s_ in specs:
                    handed_back["emptied"].append(fx_target.emptied(vals.build(s_)))
                    handed_back["rekeyed"].append(fx_target.rekeyed(vals.build(s_)))
                    handed_back["gen_emptied"] += list(fx_target.gen_emptied(vals.build(s_)))
            # the in-process route: the traces go to a StubIndexBuilder that was built with ANOTHER limit (it merges with its
            # own); what the tracer collects obeys the limit the tracing session was started with
            from monkeytype.stubs import StubIndexBuilder
            from monkeytype.tracing import trace_calls
            seen_types = []

            class Recording(StubIndexBuilder):
                def log(self, t):
                    seen_types.extend((T, []) for T in list(t.arg_types.values()) + [t.return_type, t.yield_type] if T is not None)
                    super().log(t)

            sib = Recording("fx_target", 10 if k != 10 else 1)
            with trace_calls(sib, k, lambda code: code.co_filename == fx_target.__file__):
                for v in vs:
                    fx_target.ident(v)
                    fx_target.boxed(v)
            ctx.label("traced-into-an-index-builder-with-another-limit")
            check_types(ctx, spec + ["index-builder-logger"], seen_types, k, "infer")
            if k == 0:
                text_ib = "\n".join(st_.render() for st_ in sib.get_stubs().values())
                if "TypedDict" in text_ib:
                    return ctx.fail("C06/stub:typeddict-with-limit-zero", spec + ["index-builder-logger"], "traced with limit 0 into an index builder: its stub mentions TypedDict\n" + text_ib[:600])
            # raw rows
            con = sqlite3.connect(db)
            raw = con.execute("select arg_types, return_type, yield_type from monkeytype_call_traces").fetchall()
            con.close()
            if k == 0:
                for row in raw:
                    if any(c and "is_typed_dict" in c for c in row):
                        return ctx.fail("C06/store:typeddict-with-limit-zero", spec, f"stored row mentions a TypedDict with k=0: {row}")
            store = SQLiteStore.make_store(db)
            traces = [t.to_trace() for t in store.filter("fx_target")]
            store.conn.close()
            tv = []
            for t in traces:
                for T in list(t.arg_types.values()) + [t.return_type, t.yield_type]:
                    if T is not None:
                        tv.append((T, []))
            ctx.label("e2e-decoded-types", *[] )
            check_types(ctx, spec, tv, k, "store")
            for fname, vs_back in handed_back.items():
                outs = [(t.yield_type if fname == "gen_emptied" else t.return_type) for t in traces if t.func.__name__ == fname]
                for v in vs_back:
                    if type(v) is dict and outs and not any(T is not None and member_td_nonempty(v, T) for T in outs):
                        ctx.label("handed-back-dict-checked")
                        through_td = any(T is not None and _member(v, T, False) for T in outs)
                        return ctx.fail("C06/store:empty-or-nonstr-dict-as-typeddict" if through_td else "C06/store:handed-back-value-not-admitted-by-any-trace", spec,
                                        f"{fname}() handed back {v!r}; no stored trace of it has a {'yield' if fname == 'gen_emptied' else 'return'} type that admits this value "
                                        f"other than through a TypedDict: {[show(T) for T in outs if T is not None][:4]}")
            self.n_stub = getattr(self, "n_stub", 0) + 1
            glob = ["--disable-type-rewriting"] if self.n_stub % 2 == 0 else []  # every other stub without type rewriting
            ctx.label("stub-flags:" + (glob[0] if glob else "none"))
            out, err = io.StringIO(), io.StringIO()
            try:
                rc = cli.main(["-c", "fx_cfg:CONFIG"] + glob + ["stub", "fx_target"], out, err)
            except Exception as e:
                ctx.label("cli-crash:" + type(e).__name__)
                return
            text = out.getvalue()
            if rc != 0 or not text.strip():
                ctx.label("cli-no-stub")
                return
            if k == 0:
                if "TypedDict" in text:
                    return ctx.fail("C06/stub:typeddict-with-limit-zero", spec, "stub mentions TypedDict with k=0:\n" + text[:800])
                return
            try:
                tree = ast.parse(text)
            except SyntaxError:
                ctx.label("stub-unparsable")
                return
            classes = [n for n in tree.body if isinstance(n, ast.ClassDef) and n.bases]
            own = collections.defaultdict(list)
            for c in classes:
                own[c.name].append(sum(isinstance(b, ast.AnnAssign) for b in c.body))
            for c in classes:
                n = sum(isinstance(b, ast.AnnAssign) for b in c.body)
                base = c.bases[0].id if isinstance(c.bases[0], ast.Name) else None
                total = n + (min(own[base]) if base in own else 0)  # min: same-named classes may collide (C11 finding)
                ctx.label("stub-typeddict-classes")
                if n == 0:
                    return ctx.fail("C06/stub:empty-typeddict-class", spec, f"class {c.name} has no fields:\n" + text[:800])
                if total > k:
                    return ctx.fail("C06/stub:typeddict-class-over-limit", spec, f"class {c.name} (+base) has {total} fields, limit {k}:\n" + text[:1200])
        finally:
            if os.path.exists(db):
                os.unlink(db)


def default_limit(ctx):
    """"a size limit of zero (the default)": the shipped configurations, untouched, produce no TypedDict anywhere"""
    import fx_target
    from monkeytype.config import Config, DefaultConfig
    d = tempfile.mkdtemp(prefix="c06d-")
    try:
        class Minimal(Config):
            def trace_store(self_inner):
                return SQLiteStore.make_store(os.path.join(d, "minimal.sqlite3"))

        for name, cfg, cfg_arg, db in (("DefaultConfig", DefaultConfig(), "monkeytype.config:DefaultConfig()", os.path.join(d, "default.sqlite3")),
                                       ("Config-subclass-with-defaults", Minimal(), None, os.path.join(d, "minimal.sqlite3"))):
            os.environ["MT_DB_PATH"] = db
            spec = ["DEFAULT-LIMIT", name]
            ctx.case(spec, True, ["default-limit"])
            if cfg.max_typed_dict_size() != 0:
                ctx.fail("C06/default-limit-is-not-zero", spec, f"{name}().max_typed_dict_size() == {cfg.max_typed_dict_size()}", raise_=False)
            with monkeytype.trace(cfg):
                fx_target.ident({"a": 1, "b": "x"})
                fx_target.boxed({"a": {"b": 2}})
                list(fx_target.gen({"a": 1}, {"b": 2}))
            con = sqlite3.connect(db)
            raw = con.execute("select arg_types, return_type, yield_type from monkeytype_call_traces where module = 'fx_target'").fetchall()
            con.close()
            if not raw:
                raise core.HarnessError("nothing recorded for the default-limit workload")
            if any(c and "is_typed_dict" in c for row in raw for c in row):
                ctx.fail("C06/store:typeddict-with-limit-zero", spec, f"{name}: a stored row mentions a TypedDict", raise_=False)
            if cfg_arg:
                out, err = io.StringIO(), io.StringIO()
                cli.main(["-c", cfg_arg, "stub", "fx_target"], out, err)
                if "TypedDict" in out.getvalue():
                    ctx.fail("C06/stub:typeddict-with-limit-zero", spec, f"{name}: stub mentions TypedDict\n{out.getvalue()[:500]}", raise_=False)
    finally:
        os.environ.pop("MT_DB_PATH", None)
        shutil.rmtree(d, ignore_errors=True)


def project_config(ctx):
    """an importable project-wide `monkeytype_config` whose CONFIG has a limit of 5, while the session at hand is started with
    limit 0 (explicitly through trace_calls, and through monkeytype.trace with a config that answers 0): the limit that was
    supplied is the one that counts"""
    import sys
    import fx_cfg
    import fx_target
    from monkeytype.tracing import CallTraceLogger, trace_calls
    d = tempfile.mkdtemp(prefix="c06p-")
    with open(os.path.join(d, "monkeytype_config.py"), "w") as f:
        f.write("from monkeytype.config import DefaultConfig\n\n\nclass ProjectConfig(DefaultConfig):\n    def max_typed_dict_size(self):\n        return 5\n\n\nCONFIG = ProjectConfig()\n")
    sys.path.insert(0, d)
    sys.modules.pop("monkeytype_config", None)
    try:
        class Keep(CallTraceLogger):
            def __init__(self):
                self.traces = []

            def log(self, t):
                self.traces.append(t)

        spec = ["PROJECT-CONFIG"]
        ctx.case(spec, True, ["project-config-with-another-limit"])
        lg = Keep()
        code = fx_target.ident.__code__
        with trace_calls(lg, 0, lambda c: c is code):
            fx_target.ident({"a": 1, "b": "x"})
            fx_target.ident([{"id": 1}])
        tv = [(T, []) for t in lg.traces for T in list(t.arg_types.values()) + [t.return_type] if T is not None]
        if not tv:
            raise core.HarnessError("project_config: nothing traced")
        check_types(ctx, spec + ["trace_calls"], tv, 0, "infer")
        db = os.path.join(d, "p.sqlite3")
        os.environ.update(MTV_DB=db, MTV_K="0", MTV_RW="noop")
        with monkeytype.trace(fx_cfg.CONFIG):
            fx_target.ident({"a": 1, "b": "x"})
            fx_target.boxed({"id": 1})
        con = sqlite3.connect(db)
        raw = con.execute("select arg_types, return_type, yield_type from monkeytype_call_traces where module = 'fx_target'").fetchall()
        con.close()
        if any(c and "is_typed_dict" in c for row in raw for c in row):
            ctx.fail("C06/store:typeddict-with-limit-zero", spec + ["monkeytype.trace"], "a project-wide monkeytype_config with limit 5 is importable; the session was started with limit 0 and stored a TypedDict", raise_=False)
    except core.Violation as v:
        ctx.record_violation(v.signature, v.spec, v.message)
    finally:
        sys.path.remove(d)
        sys.modules.pop("monkeytype_config", None)
        shutil.rmtree(d, ignore_errors=True)


def do_case(ctx, specs, k, e2e, rw):
    vs = [vals.build(s) for s in specs]
    spec = ["T", specs, k]
    ctx.case([specs, k], nontrivial(specs, k), ["k=%d" % k if k in KS else "k=rel", "e2e" if e2e else "types-only"])
    tv = [(get_type(v, k), [v]) for v in vs]
    try:
        tv.append((tinfer.infer(vs, k), vs))
    except Exception:
        return  # C04 owns crashes
    check_types(ctx, spec, tv, k, "infer")
    if e2e is not None:
        e2e.run(ctx, specs, k, rw)


def _wrap_nested(d, how):
    return d if how == "bare" else ["list", [d]] if how == "list" else ["tuple", [d]]


def dict_rich():
    big = st.lists(st.sampled_from(vals.IDENT_KEYS), min_size=4, max_size=12, unique=True).map(
        lambda ks: ["dict", [[["lit", k], ["lit", i]] for i, k in enumerate(ks)]])
    sub = vals.values(2)
    wrap = st.one_of(big, big.map(lambda d: ["list", [d]]), big.map(lambda d: ["tuple", [d, ["lit", 0]]]),
                     big.map(lambda d: ["dict", [[["lit", "a"], d]]]), big.map(lambda d: ["ddict", [[["lit", 0], d]]]),
                     big.map(lambda d: ["dict", [[["lit", 0], d]]]), big.map(lambda d: ["deque", [d]]), big.map(lambda d: ["odict", [[["lit", "a"], d]]]))
    oddkey = st.sampled_from([["lit", None], ["lit", True], ["lit", 0], ["lit", 1.5], ["lit", "a"], ["lit", "b"], ["inst", "Base"],
                              ["cls", "int"], ["special", "NT"], ["special", "MyStr"], ["tuple", []]])
    small_mixed = st.lists(st.tuples(oddkey, vals.simple_atoms).map(list), min_size=1, max_size=3).map(lambda l: ["dict", l])
    smw = st.one_of(small_mixed, small_mixed.map(lambda d: ["list", [d, ["dict", []]]]), small_mixed.map(lambda d: ["dict", [[["lit", "a"], d]]]),
                    st.lists(small_mixed, min_size=1, max_size=3).map(lambda l: ["list", l]))
    # several dicts that share ONE key whose values are small str-keyed dicts with different keys: the nested merge must obey
    # the same limit as the outer one (k is drawn relative to the case, so k = 1 or 2 with a nested key union just above it)
    inner = st.lists(st.sampled_from(["a", "b", "c", "d", "e"]), min_size=1, max_size=2, unique=True).map(
        lambda ks: ["dict", [[["lit", k_], ["lit", 0]] for k_ in ks]])
    nested_same_key = st.tuples(st.sampled_from(["cfg", "a"]), st.lists(inner, min_size=2, max_size=4), st.sampled_from(["bare", "list", "tuple"])).map(
        lambda p: [_wrap_nested(["dict", [[["lit", p[0]], i]]], p[2]) for i in p[1]])
    return st.one_of(vals.shaped_multiset(), vals.shaped_multiset(), st.lists(st.one_of(wrap, vals.strdict(sub, 6)), min_size=1, max_size=4), nested_same_key,
                     st.lists(smw, min_size=1, max_size=3),
                     tinfer.overflow_multiset().map(lambda p: p[0]))


def shard(ctx):
    q = ctx.tier == "quick"
    e2e = E2E()
    try:
        if ctx.shard == 0:
            default_limit(ctx)
        if ctx.shard == 1 % ctx.nshards:
            project_config(ctx)

        def f1(ctx):
            @given(st.one_of(st.tuples(dict_rich(), st.integers(0, 1000)).map(lambda p: (p[0], vals.k_for(p[0], p[1]))),
                             tinfer.overflow_multiset()))
            def test(c):
                do_case(ctx, c[0], c[1], None, None)
            return test

        def f2(ctx):
            @given(st.one_of(st.tuples(dict_rich(), st.integers(0, 1000)).map(lambda p: (p[0], vals.k_for(p[0], p[1]))),
                             tinfer.overflow_multiset()), st.sampled_from(["noop", "default"]))
            def test(c, rw):
                do_case(ctx, c[0], c[1], e2e, rw)
            return test

        core.run_hypothesis(ctx, f1, 800 if q else 10000, salt=1)
        core.run_hypothesis(ctx, f2, 40 if q else 500, salt=2)
    finally:
        e2e.close()


def run(ctx):
    core.run_sharded(ctx, __name__, "shard", 8 if ctx.tier == "quick" else 16)


def replay(ctx, case):
    if case[0] == "DEFAULT-LIMIT":
        return default_limit(ctx)
    if case[0] == "PROJECT-CONFIG":
        return project_config(ctx)
    if case[0] == "E2E":
        e = E2E()
        try:
            do_case(ctx, case[1], case[2], e, case[3])
        finally:
            e.close()
    else:
        do_case(ctx, case[1], case[2], None, None)
