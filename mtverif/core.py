"""Common plumbing: case accounting, known findings, replay files, evidence, sharding.

Exit codes: 0 held / 1 violation (VIOLATION line printed) / 2 harness error.
"""
import hashlib
import json
import multiprocessing
import os
import sys
import time
import traceback
from collections import Counter

HOME = os.environ.get("VERIF_HOME") or os.path.dirname(os.path.dirname(os.path.abspath(__file__)))
KNOWN_FILE = os.path.join(HOME, "known_findings.json")
# sensitivity experiments against a scratch tree never touch the committed evidence / replays
_SCRATCH = os.path.realpath(os.environ.get("VERIF_REPO_ROOT", "/repo")) != "/repo"
OUT = "/tmp/mut/out" if _SCRATCH else HOME
MAX_SAMPLES = 6


class HarnessError(Exception):
    """The machinery (generator, oracle, environment) is at fault, never MonkeyType."""


class Violation(Exception):
    """Raised inside a Hypothesis test so that the failing case is shrunk."""

    def __init__(self, signature, spec, message):
        super().__init__(f"{signature}: {message}")
        self.signature = signature
        self.spec = spec
        self.message = message


def jsonable(x):
    if isinstance(x, (str, int, float, bool)) or x is None:
        return x
    if isinstance(x, (list, tuple)):
        return [jsonable(e) for e in x]
    if isinstance(x, dict):
        return {str(k): jsonable(v) for k, v in x.items()}
    if isinstance(x, (set, frozenset)):
        return sorted((jsonable(e) for e in x), key=repr)
    return repr(x)


def digest(spec):
    return hashlib.sha1(json.dumps(jsonable(spec), sort_keys=True).encode()).hexdigest()[:16]


def load_known():
    with open(KNOWN_FILE) as f:
        return json.load(f)


class Ctx:
    """Per-run (or per-shard) accounting. Plain data so that it pickles across shards."""

    def __init__(self, pid, tier, seed, shard=0, nshards=1):
        self.pid = pid
        self.tier = tier
        self.seed = seed
        self.shard = shard
        self.nshards = nshards
        self.evaluations = 0
        self.nontrivial = set()
        self.hist = Counter()
        self.samples = []
        self.known_hits = Counter()
        self.violations = []  # dicts: signature, spec, message
        self.extra = {}
        self.notes = []
        self.known = {e["signature"]: e for e in load_known()["findings"] if e["property"] == pid}
        # signatures found in this run that are treated as excluded so the search goes on
        self.excluded = set()
        self.last_violation = None

    # ---- accounting -------------------------------------------------------------------
    def case(self, spec, nontrivial, labels=()):
        self.evaluations += 1
        if nontrivial:
            d = digest(spec)
            if d not in self.nontrivial and len(self.samples) < MAX_SAMPLES and (
                len(self.nontrivial) % 29 == 0
            ):
                js = jsonable(spec)
                text = json.dumps(js)
                if len(text) <= 900:
                    self.samples.append(js)
                elif sum(1 for x in self.samples if isinstance(x, dict) and "truncated_case" in x) < 2:
                    self.samples.append({"truncated_case": text[:1200]})
            self.nontrivial.add(d)
        for lab in labels:
            self.hist[lab] += 1

    def label(self, *labels):
        for lab in labels:
            self.hist[lab] += 1

    def shard_seed(self, salt=0):
        h = hashlib.sha1(f"{self.seed}/{self.shard}/{salt}".encode()).hexdigest()
        return int(h[:12], 16)

    # ---- failures ---------------------------------------------------------------------
    def is_known(self, signature):
        return signature in self.known

    def fail(self, signature, spec, message, raise_=True):
        """Oracle failure. Listed signature -> counted, search continues. Otherwise a violation:
        inside Hypothesis raise so that it shrinks; outside (enumerations) record directly."""
        if signature in self.known:
            self.known_hits[signature] += 1
            if os.environ.get("VERIF_SAVE_KNOWN"):  # maintenance aid: capture a reproducer for the regress tier
                rp = os.path.join(HOME, self.known[signature].get("replay", ""))
                if rp.endswith(".json") and not os.path.exists(rp):
                    with open(rp, "w") as f:
                        json.dump({"property": self.pid, "signature": signature, "message": "known finding", "case": jsonable(spec)}, f, indent=1)
            return
        if signature in self.excluded:
            self.hist["excluded:" + signature] += 1
            return
        if raise_:
            self.last_violation = (signature, jsonable(spec), str(message))
            raise Violation(signature, spec, message)
        self.record_violation(signature, spec, message)

    def record_violation(self, signature, spec, message):
        for v in self.violations:
            if v["signature"] == signature:
                v["count"] += 1
                return
        self.violations.append(
            {"signature": signature, "spec": jsonable(spec), "message": str(message)[:2000], "count": 1}
        )
        self.excluded.add(signature)

    # ---- merging ----------------------------------------------------------------------
    def merge(self, other):
        self.evaluations += other.evaluations
        self.nontrivial |= other.nontrivial
        self.hist.update(other.hist)
        for s in other.samples:
            if len(self.samples) < MAX_SAMPLES:
                self.samples.append(s)
        self.known_hits.update(other.known_hits)
        for v in other.violations:
            for w in self.violations:
                if w["signature"] == v["signature"]:
                    w["count"] += v["count"]
                    break
            else:
                self.violations.append(v)
        for k, v in other.extra.items():
            if isinstance(v, (int, float)) and isinstance(self.extra.get(k, 0), (int, float)):
                self.extra[k] = self.extra.get(k, 0) + v
            elif isinstance(v, list):
                self.extra.setdefault(k, [])
                self.extra[k] = (self.extra[k] + v)[:12]
            else:
                self.extra.setdefault(k, v)
        self.notes.extend(n for n in other.notes if n not in self.notes)


def hyp_settings(max_examples, shrink=True, **kw):
    from hypothesis import HealthCheck, Phase, settings

    phases = (Phase.generate, Phase.shrink) if shrink else (Phase.generate,)
    return settings(
        max_examples=max_examples,
        database=None,
        deadline=None,
        derandomize=False,
        report_multiple_bugs=False,
        phases=phases,
        suppress_health_check=[HealthCheck.too_slow, HealthCheck.data_too_large, HealthCheck.large_base_example],
        **kw,
    )


def run_hypothesis(ctx, test_factory, max_examples, salt=0, rounds=4, shrink=True, **kw):
    """Run a @given test (built by test_factory(ctx)) under the shard's seed. A Violation is shrunk by
    Hypothesis; its signature is then excluded and the search restarted (collect root causes, up to
    `rounds`)."""
    import hypothesis
    from hypothesis.errors import FailedHealthCheck, Flaky, Unsatisfiable

    for rnd in range(rounds):
        test = test_factory(ctx)
        ctx.last_violation = None
        test = hypothesis.seed(ctx.shard_seed(salt * 101 + rnd))(
            hyp_settings(max_examples, shrink=shrink, **kw)(test)
        )
        try:
            test()
            return
        except Violation as v:
            ctx.record_violation(v.signature, v.spec, v.message)
        except Flaky as e:
            # the same generated case passed on one execution and failed on another: the code under test is
            # not a function of its input. If an oracle failure was seen, report it (unshrunk).
            if ctx.last_violation is None:
                raise HarnessError(f"flaky without an oracle failure: {e}")
            sig, spec, msg = ctx.last_violation
            ctx.record_violation(sig, spec, msg + " [outcome differed between executions of the same case]")
        except (FailedHealthCheck, Unsatisfiable) as e:
            raise HarnessError(f"generator health check failed: {e}")
        except HarnessError:
            raise
        except BaseException as e:  # anything else is ours, not MonkeyType's
            if isinstance(e, (KeyboardInterrupt, SystemExit)):
                raise
            raise HarnessError("unexpected exception in harness: " + "".join(traceback.format_exception(e))[-3000:])


def _shard_entry(args):
    modname, fname, pid, tier, seed, i, n = args
    import importlib

    sys.setrecursionlimit(max(sys.getrecursionlimit(), 3000))
    mod = importlib.import_module(modname)
    ctx = Ctx(pid, tier, seed, i, n)
    try:
        getattr(mod, fname)(ctx)
    except HarnessError as e:
        return ("harness", str(e), None)
    except BaseException as e:
        return ("harness", "".join(traceback.format_exception(e))[-4000:], None)
    return ("ok", None, ctx)


def run_sharded(ctx, modname, fname, nshards):
    """Run mod.fname(shard_ctx) in nshards fresh processes and merge into ctx."""
    nshards = int(os.environ.get("VERIF_SHARDS") or nshards)  # maintenance knob (mutation sweeps run several checks side by side)
    args = [(modname, fname, ctx.pid, ctx.tier, ctx.seed, i, nshards) for i in range(nshards)]
    if nshards == 1:
        results = [_shard_entry(args[0])]
    else:
        mp = multiprocessing.get_context("fork")
        with mp.Pool(min(nshards, os.cpu_count() or 1), maxtasksperchild=1) as pool:
            results = pool.map(_shard_entry, args, chunksize=1)
    for status, err, sub in results:
        if status != "ok":
            raise HarnessError(f"shard failed: {err}")
        ctx.merge(sub)


# ---- finishing ----------------------------------------------------------------------------

def write_replay(pid, v):
    os.makedirs(os.path.join(OUT, "replays"), exist_ok=True)
    body = {"property": pid, "signature": v["signature"], "message": v["message"], "case": v["spec"]}
    name = f"{pid}-{digest([v['signature'], v['spec']])}.json"
    path = os.path.join(OUT, "replays", name)
    with open(path, "w") as f:
        json.dump(body, f, indent=1, sort_keys=True)
    return os.path.join("replays", name)


def finish(ctx, level, rule, t0, assumptions=(), coverage_extra=None, write_evidence=True):
    cov = {
        "evaluations": ctx.evaluations,
        "distinct_nontrivial": len(ctx.nontrivial),
        "rule": rule,
        "samples": ctx.samples[:MAX_SAMPLES] or ["<no non-trivial sample recorded>"],
        "class_histogram": dict(sorted(ctx.hist.items())),
        "known_findings_matched": dict(ctx.known_hits),
    }
    cov.update(ctx.extra)
    if coverage_extra:
        cov.update(coverage_extra)
    if level == "translation_validation":
        cov.setdefault("programs", ctx.evaluations)
        cov.setdefault("disagreements_checked", ctx.evaluations)
    ev = {
        "property_id": ctx.pid,
        "tier": ctx.tier,
        "seed": ctx.seed,
        "level": level,
        "coverage": cov,
        "assumptions": list(assumptions) + ctx.notes,
        "wall_s": round(time.time() - t0, 2),
        "violations": len(ctx.violations),
    }
    if write_evidence:  # a --replay run re-evaluates one saved case; it is not evidence of coverage
        os.makedirs(os.path.join(OUT, "evidence"), exist_ok=True)
        with open(os.path.join(OUT, "evidence", ctx.pid + ".json"), "w") as f:
            json.dump(ev, f, indent=1, sort_keys=True)
    for sig, entry in ctx.known.items():
        print(f"KNOWN-FINDING: property={ctx.pid} {entry['what_fails']} [signature={sig} seen={ctx.known_hits.get(sig, 0)}]")
    print(
        f"{ctx.pid} tier={ctx.tier} seed={ctx.seed}: evaluations={ctx.evaluations} "
        f"distinct_nontrivial={len(ctx.nontrivial)} violations={len(ctx.violations)} wall={ev['wall_s']}s"
    )
    if ctx.violations:
        for v in ctx.violations:
            path = write_replay(ctx.pid, v)
            print(f"  violation signature={v['signature']} count={v['count']}: {v['message'][:600]}")
            print(f"VIOLATION property={ctx.pid} replay={path}")
        return 1
    return 0


def run_fuzz(ctx, runs):
    """thorough-tier extra engine: a bounded atheris/libFuzzer campaign over the same decoder and oracle (tools/fuzz_types.py).
    Bounded by run count, empty corpus, seed = VERIF_SEED. Missing atheris is noted, never an error."""
    import shutil
    import subprocess
    import tempfile
    deps = os.path.join(HOME, ".deps")
    if not os.path.isdir(os.path.join(deps, "atheris")):
        ctx.notes.append("atheris not installed: coverage-guided campaign skipped")
        return
    d = tempfile.mkdtemp(prefix="fuzz-")
    try:
        p = subprocess.run([sys.executable, "-W", "ignore", os.path.join(HOME, "tools", "fuzz_types.py"), ctx.pid, f"-runs={runs}",
                            f"-seed={max(1, ctx.seed)}", "-verbosity=0"], cwd=d, capture_output=True, text=True, timeout=3600)
        out = p.stdout + p.stderr
        import re
        done = [l.strip() for l in out.splitlines() if re.match(r"^#\d+\s+DONE", l) or l.startswith("Done ")]
        ctx.extra["atheris_campaign"] = {"runs_requested": runs, "summary": done[-2:] if done else out[-300:].splitlines()[-2:]}
        for line in out.splitlines():
            if line.startswith("FUZZ-VIOLATION "):
                _, sig, spec = line.split(" ", 2)
                try:
                    spec = json.loads(spec)
                except ValueError:
                    pass
                ctx.record_violation(sig, spec, "found by the atheris campaign")
        if p.returncode != 0 and not any(l.startswith("FUZZ-VIOLATION ") for l in out.splitlines()):
            raise HarnessError("atheris campaign failed: " + out[-1500:])
    finally:
        shutil.rmtree(d, ignore_errors=True)
