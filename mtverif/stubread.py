"""Stub reader: parse a rendered module stub, build the namespace it provides, evaluate every annotation in it,
and return canonical types (TypedDict classes defined by the stub are read back from the AST)."""
import ast
import builtins
import collections
import re
import typing
from typing import Union

from . import oracle
from .core import HarnessError


class StubError(Exception):
    def __init__(self, kind, msg):
        super().__init__(msg)
        self.kind = kind


NESTED_HEADER = re.compile(r"^(\s*)class ((?:\w+\.)+\w+)(\(.*\))?:", re.M)


def read_stub(text, target_ns=None):
    """returns dict(funcs, tdclasses, unresolved, dupes, ns, ev, nested_headers, syntax_error)"""
    target_ns = dict(target_ns or {})
    nested = NESTED_HEADER.findall(text)
    fixed = NESTED_HEADER.sub(lambda m: f"{m.group(1)}class {m.group(2).replace('.', '__DOT__')}{m.group(3) or ''}:", text)
    out = dict(funcs={}, tdclasses={}, unresolved=[], dupes=[], ns={}, nested_headers=[n[1] for n in nested], syntax_error=None, text=text)
    try:
        tree = ast.parse(fixed)
    except SyntaxError as e:
        out["syntax_error"] = e
        return out
    ns = out["ns"]
    for node in tree.body:
        if isinstance(node, (ast.Import, ast.ImportFrom)):
            try:
                exec(compile(ast.Module([node], []), "<stub-import>", "exec"), ns)
            except Exception as e:
                out["unresolved"].append(("import", ast.unparse(node), repr(e)))
    tdc = out["tdclasses"]
    all_entries = []
    for node in tree.body:
        if isinstance(node, ast.ClassDef) and node.bases:
            total = True
            for kw in node.keywords:
                if kw.arg == "total":
                    total = ast.literal_eval(kw.value)
            fields = {}
            for st_ in node.body:
                if isinstance(st_, ast.AnnAssign) and isinstance(st_.target, ast.Name):
                    fields[st_.target.id] = st_.annotation
            entry = {"bases": [ast.unparse(b) for b in node.bases], "total": total, "fields": fields}
            all_entries.append((node.name, entry))
            tdc[node.name] = entry

    def provided(name):
        return name in ns or hasattr(builtins, name) or name in target_ns or name in tdc

    def ev(expr_node, where="signature"):
        for n in ast.walk(expr_node):
            if isinstance(n, ast.Name) and isinstance(n.ctx, ast.Load) and not provided(n.id):
                out["unresolved"].append((where, n.id, ast.unparse(expr_node)))
        env = dict(vars(builtins))
        env.update(target_ns)
        env.update(ns)
        for name in tdc:
            env[name] = typing.ForwardRef(name)
        src = ast.unparse(expr_node)
        try:
            return src, eval(compile(ast.Expression(expr_node), "<anno>", "eval"), env)
        except Exception as e:
            kind = "typeddict-class-body-does-not-evaluate" if where == "typeddict-class-body" else "annotation-does-not-evaluate"
            return src, StubError(kind, f"{src!r}: {type(e).__name__}: {e}")

    out["ev"] = ev
    # two classes of one name collide only if they differ *structurally* (union member order inside a field is free)
    sigs = {}
    for name, entry in all_entries:
        fs = []
        for k, v in sorted(entry["fields"].items()):
            try:
                c = canon_of(ev(v, where="typeddict-class-body")[1], {"tdclasses": tdc, "dupes": [], "ns": ns}, None, True)
            except Exception:
                c = ast.unparse(v)
            fs.append((k, c))
        sigs.setdefault(name, set()).add((tuple(entry["bases"]), entry["total"], tuple(fs)))
    out["dupes"] = sorted(n for n, ss in sigs.items() if len(ss) > 1)
    out["unresolved"] = [u for i, u in enumerate(out["unresolved"]) if u not in out["unresolved"][:i]]
    # class-body annotations of generated TypedDict classes also use names
    for name, c in tdc.items():
        for b in c["bases"]:
            if b not in tdc and not provided(b.split(".")[0]):
                out["unresolved"].append(("class-base", b, name))
        c["evaluated"] = {k: ev(v, where="typeddict-class-body") for k, v in c["fields"].items()}

    funcs = out["funcs"]

    def visit_func(node, classpath):
        info = {"args": {}, "returns": None, "decorators": [ast.unparse(d) for d in node.decorator_list],
                "async": isinstance(node, ast.AsyncFunctionDef), "node": node}
        a = node.args
        for arg in a.posonlyargs + a.args + a.kwonlyargs + ([a.vararg] if a.vararg else []) + ([a.kwarg] if a.kwarg else []):
            if arg.annotation is not None:
                info["args"][arg.arg] = ev(arg.annotation)
        if node.returns is not None:
            info["returns"] = ev(node.returns)
        key = (classpath, node.name)
        funcs.setdefault(key, []).append(info)

    def visit_body(body, classpath):
        for node in body:
            if isinstance(node, (ast.FunctionDef, ast.AsyncFunctionDef)):
                visit_func(node, classpath)
            elif isinstance(node, ast.ClassDef) and not node.bases:
                visit_body(node.body, classpath + tuple(node.name.split("__DOT__")))
            elif isinstance(node, ast.ClassDef):
                pass
            elif isinstance(node, (ast.Import, ast.ImportFrom)):
                pass
            else:
                out.setdefault("other_statements", []).append(ast.unparse(node)[:80])

    visit_body(tree.body, ())
    return out


def canon_of(t, stub, ns_extra=None, opaque_td=False):
    """canonical form of an evaluated stub annotation; forward references resolve to the stub's TypedDict classes"""
    tdc = stub["tdclasses"]

    def td_canon(name, seen=()):
        if name in seen:
            raise StubError("recursive-typeddict-class", name)
        if name in stub["dupes"]:
            raise StubError("typeddict-class-name-collision", f"two different classes named {name}")
        c = tdc[name]
        own = {}
        for k, (src, v) in c["evaluated"].items():
            own[k] = cn(v)
        req, opt = {}, {}
        for b in c["bases"]:
            if b in tdc:
                _, r, o = td_canon(b, seen + (name,))
                req.update(dict(r))
                opt.update(dict(o))
        (req if c["total"] else opt).update(own)
        return ("TD", frozenset(req.items()), frozenset(opt.items()))

    def cn(x):
        if isinstance(x, StubError):
            raise x
        if isinstance(x, str):
            try:
                x = typing.ForwardRef(x)
            except SyntaxError:
                raise StubError("unresolvable-forward-reference", f"{x!r} is not even an expression")
        if isinstance(x, typing.ForwardRef):
            name = x.__forward_arg__
            if name in tdc:
                return ("TDREF", name) if opaque_td else td_canon(name)
            env = dict(ns_extra or {})
            env.update(stub["ns"])
            try:
                return cn(eval(name, env))
            except StubError:
                raise
            except Exception:
                raise StubError("unresolvable-forward-reference", name)
        if x is None:
            return oracle.canon(type(None))
        if hasattr(x, "__supertype__"):
            return ("NewType", x.__name__)
        o = oracle.origin(x)
        if o is Union:
            ms = set()
            for m in typing.get_args(x):
                c = cn(m)
                if c[0] == "U":
                    ms |= c[1]
                else:
                    ms.add(c)
            return next(iter(ms)) if len(ms) == 1 else ("U", frozenset(ms))
        if o is not None and o is not collections.abc.Callable:
            a = typing.get_args(x)
            if o is tuple and a == ():
                return ("G", "tuple", ())
            return ("G", oracle._oname(o), tuple(("...",) if y is Ellipsis else cn(y) for y in a))
        try:
            return oracle.canon(x)
        except HarnessError:
            raise StubError("annotation-is-not-a-type", repr(x))

    return cn(t)


def canon_src(t, ns):
    """canonical form of a *source-side* annotation object (strings / NewType resolved in ns)"""
    fake = {"tdclasses": {}, "dupes": [], "ns": ns}
    return canon_of(t, fake, ns)
