"""Reference oracles, independent of MonkeyType code: structural canon, membership (lenient and
strict), tightness (witnessed), characteristic inhabitants."""
import collections
import collections.abc
import types
import typing
from typing import Any, Union

from .core import HarnessError

NoneType = type(None)
CONTAINER_ORIGINS = (list, set, dict, collections.defaultdict, tuple)
CALLABLE_TYPES = (types.FunctionType, types.MethodType, types.BuiltinFunctionType, types.BuiltinMethodType)


def is_td(t):
    return isinstance(t, type) and type(t).__name__ == "_TypedDictMeta"


def is_anon_td(t):
    return (
        is_td(t)
        and t.__name__ == "DUMMY_NAME"
        and set(getattr(t, "__annotations__", {})) == {"required_fields", "optional_fields"}
    )


def td_fields(t):
    a = t.__annotations__
    return dict(a["required_fields"].__annotations__), dict(a["optional_fields"].__annotations__)


def origin(t):
    o = typing.get_origin(t)
    return Union if o is getattr(types, "UnionType", ()) else o  # `X | Y` (PEP 604) is a union like any other


args = typing.get_args


def is_bare_callable(t):
    return t is typing.Callable or t is collections.abc.Callable


def canon(t):
    """Canonical structural form; unions are sets, TypedDicts are (required, optional) item sets."""
    if t is Any:
        return ("Any",)
    if t is None:
        t = NoneType
    if is_anon_td(t):
        r, o = td_fields(t)
        return (
            "TD",
            frozenset((k, canon(v)) for k, v in r.items()),
            frozenset((k, canon(v)) for k, v in o.items()),
        )
    o = origin(t)
    if o is Union:
        ms = set()
        for m in args(t):
            c = canon(m)
            if c[0] == "U":
                ms |= c[1]
            else:
                ms.add(c)
        if len(ms) == 1:
            return next(iter(ms))
        return ("U", frozenset(ms))
    if is_bare_callable(t):
        return ("G", "Callable", ())
    if o is not None:
        a = args(t)
        if o is tuple and a == ():
            return ("G", "tuple", ())
        if o is collections.abc.Callable:
            return ("G", "Callable", tuple(repr(x) for x in a))
        return ("G", _oname(o), tuple(("...",) if x is Ellipsis else canon(x) for x in a))
    if isinstance(t, type):
        return ("C", t.__module__, t.__qualname__)
    if isinstance(t, typing.ForwardRef):
        return ("FWD", t.__forward_arg__)
    if getattr(t, "__module__", None) == "typing" and getattr(t, "_name", None):
        return ("G", "bare:" + t._name, None)
    raise HarnessError("canon: unknown type object %r" % (t,))


def _oname(o):
    return {
        list: "list", set: "set", dict: "dict", tuple: "tuple", type: "type", frozenset: "frozenset",
        collections.defaultdict: "defaultdict", collections.deque: "deque", collections.OrderedDict: "OrderedDict",
        collections.abc.Iterator: "Iterator", collections.abc.Generator: "Generator",
        collections.abc.Iterable: "Iterable",
    }.get(o) or (o.__module__ + "." + o.__qualname__)


def struct_eq(a, b):
    return canon(a) == canon(b)


def show(t):
    """Stable readable rendering of a type (for messages / specs)."""
    c = canon(t)

    def r(c):
        if c[0] == "Any":
            return "Any"
        if c[0] == "C":
            return c[2] if c[1] == "builtins" else c[1] + "." + c[2]
        if c[0] == "U":
            return "Union[" + ", ".join(sorted(r(m) for m in c[1])) + "]"
        if c[0] == "TD":
            return "TD{" + ", ".join(sorted(f"{k}: {r(v)}" for k, v in c[1])) + " | " + ", ".join(
                sorted(f"{k}?: {r(v)}" for k, v in c[2])) + "}"
        if c[0] == "G":
            if c[2] is None:
                return c[1]
            return c[1] + "[" + ", ".join("..." if m == ("...",) else (m if isinstance(m, str) else r(m)) for m in c[2]) + "]"
        return repr(c)

    return r(c)


# ---------------------------------------------------------------------------------------------
def _member(v, t, strict):
    if t is Any:
        return not strict
    if t is None:
        t = NoneType
    if is_anon_td(t):
        if not isinstance(v, dict):
            return False
        r, o = td_fields(t)
        ks = set(v.keys())
        if not all(isinstance(k, str) for k in ks):
            return False
        if not set(r) <= ks or not ks <= set(r) | set(o):
            return False
        return all(_member(v[k], (r[k] if k in r else o[k]), strict) for k in ks)
    o = origin(t)
    if o is Union:
        return any(_member(v, m, strict) for m in args(t))
    if is_bare_callable(t) or o is collections.abc.Callable:
        return callable(v)
    if o is not None:
        a = args(t)
        if o in (list, set, frozenset, collections.deque):
            return isinstance(v, o) and all(_member(e, a[0], strict) for e in v)
        if o is dict or o is collections.defaultdict or o is collections.OrderedDict:
            return isinstance(v, o) and all(
                _member(k, a[0], strict) and _member(x, a[1], strict) for k, x in v.items()
            )
        if o is tuple:
            if not isinstance(v, tuple):
                return False
            if a == ():
                return len(v) == 0
            if len(a) == 2 and a[1] is Ellipsis:
                return all(_member(e, a[0], strict) for e in v)
            return len(v) == len(a) and all(_member(e, x, strict) for e, x in zip(v, a))
        if o is type:
            if not isinstance(v, type):
                return False
            if a[0] is Any:
                return not strict
            return issubclass(v, a[0])
        if o in (collections.abc.Iterator, collections.abc.Generator, collections.abc.Iterable):
            return isinstance(v, o)
        raise HarnessError("member: unknown generic %r" % (t,))
    if isinstance(t, type):
        return isinstance(v, t)
    if getattr(t, "__module__", None) == "typing" and getattr(t, "_name", None) in (
        "List", "Set", "Dict", "Tuple", "Type", "DefaultDict", "Iterator", "Generator"):
        return isinstance(v, origin(t) or object)
    raise HarnessError("member: unknown type %r" % (t,))


def conforms(v, t):
    """Lenient membership (Any admits everything)."""
    return _member(v, t, False)


def sconf(v, t):
    """Strict membership: Any admits nothing (in an inferred type it only stands for 'no element seen')."""
    return _member(v, t, True)


def first_rejected(v, t, path="$"):
    """Innermost sub-value that is not admitted at its position (for messages/classification)."""
    if conforms(v, t):
        return None
    o = origin(t)
    alts = list(args(t)) if o is Union else [t]
    for a in alts:
        oa = origin(a)
        if oa in (list, set) and isinstance(v, oa):
            for i, e in enumerate(v):
                if not conforms(e, args(a)[0]):
                    return first_rejected(e, args(a)[0], f"{path}[{i}]")
        if oa in (dict, collections.defaultdict) and isinstance(v, oa):
            for k, x in v.items():
                if not conforms(x, args(a)[1]):
                    return first_rejected(x, args(a)[1], f"{path}[{k!r}]")
        if oa is tuple and isinstance(v, tuple) and len(args(a)) == len(v) and Ellipsis not in args(a):
            for i, (e, x) in enumerate(zip(v, args(a))):
                if not conforms(e, x):
                    return first_rejected(e, x, f"{path}({i})")
    return (path, v, t)


# ---------------------------------------------------------------------------------------------
class NotTight(Exception):
    def __init__(self, kind, msg):
        super().__init__(msg)
        self.kind = kind


def head_exact(v, t):
    """v inhabits alternative t with t's exact head and strictly conforms."""
    if is_anon_td(t):
        return type(v) is dict and sconf(v, t)
    o = origin(t)
    if is_bare_callable(t):
        return isinstance(v, CALLABLE_TYPES) and not isinstance(v, type)
    if o is not None:
        if o in CONTAINER_ORIGINS or o in (collections.deque, frozenset, collections.OrderedDict):
            return type(v) is o and sconf(v, t)
        if o is type:
            return isinstance(v, type) and v is args(t)[0]
        if o is collections.abc.Iterator:
            return isinstance(v, types.GeneratorType)
        raise HarnessError("head_exact: generic %r" % (t,))
    if isinstance(t, type):
        if isinstance(v, type) or isinstance(v, CALLABLE_TYPES) or isinstance(v, types.GeneratorType):
            return False
        return type(v) is t and type(v) not in CONTAINER_ORIGINS
    raise HarnessError("head_exact: %r" % (t,))


def alts(t):
    return list(args(t)) if origin(t) is Union else [t]


def witnessed(t, values, enclosing_empty=False, path="$", top=True, also_witness=()):
    """C05 tightness, walked in lock-step with the observed values. Raises NotTight.
    also_witness: further values that count for the inhabitation of an alternative (not for coverage)."""
    if t is Any:
        if not values and (top or enclosing_empty):
            return
        if values:
            raise NotTight("any-covers-values", f"{path}: Any although {len(values)} value(s) were observed here")
        raise NotTight("any-without-empty", f"{path}: Any but no empty container was observed at the enclosing position")
    A = alts(t)
    # (structurally duplicated alternatives are not a tightness failure: the statement only forbids
    # alternatives nobody inhabits; identity-hashed TypedDict classes under DefaultDict do produce duplicates)
    for v in values:
        if not sconf(v, t):
            raise NotTight("uncovered-value", f"{path}: value {v!r} not covered by a non-Any alternative of {show(t)}")
    for i, a in enumerate(A):
        sub = f"{path}|{i}"
        if a is Any:
            if not enclosing_empty:
                raise NotTight("any-without-empty", f"{sub}: Any alternative without an empty enclosing container")
            continue
        inh = [v for v in values if head_exact(v, a)]
        if not inh and any(head_exact(v, a) for v in also_witness):
            continue
        if not inh:
            raise NotTight("uninhabited-alternative", f"{sub}: alternative {show(a)} is not inhabited by any observed value")
        if is_anon_td(a):
            r, o = td_fields(a)
            if not r and not o:
                raise NotTight("empty-typeddict", f"{sub}: empty TypedDict")
            for k, ft in r.items():
                if not all(k in v for v in inh):
                    raise NotTight("required-key-missing", f"{sub}: key {k!r} required but some observed dict lacks it")
                witnessed(ft, [v[k] for v in inh], False, f"{sub}.{k}", False)
            for k, ft in o.items():
                if all(k in v for v in inh):
                    raise NotTight("optional-key-always-present", f"{sub}: key {k!r} optional but every observed dict has it")
                witnessed(ft, [v[k] for v in inh if k in v], False, f"{sub}.{k}?", False)
            continue
        og = origin(a)
        if og in (list, set, collections.deque, frozenset):
            witnessed(args(a)[0], [e for v in inh for e in v], any(len(v) == 0 for v in inh), sub + "[]", False)
        elif og in (dict, collections.defaultdict, collections.OrderedDict):
            ee = any(len(v) == 0 for v in inh)
            # a dict whose keys are all strings is, by design, described through its keys AS STRINGS (TypedDict fields, and
            # `Dict[str, ...]` when a TypedDict is turned back into a Dict): a key that is an instance of a str subclass
            # witnesses the alternative `str` there
            as_str = [str.__str__(k) for v in inh if all(isinstance(x, str) for x in v.keys()) for k in v.keys() if type(k) is not str]
            witnessed(args(a)[0], [k for v in inh for k in v.keys()], ee, sub + "{k}", False, as_str)
            witnessed(args(a)[1], [x for v in inh for x in v.values()], ee, sub + "{v}", False)
        elif og is tuple:
            for j, et in enumerate(args(a)):
                witnessed(et, [v[j] for v in inh], False, f"{sub}({j})", False)
        elif og is collections.abc.Iterator:
            if args(a)[0] is not Any:
                raise NotTight("iterator-elem", f"{sub}: Iterator element type claimed although unobservable")


# ---------------------------------------------------------------------------------------------
class Exotic:
    """A value of a class no type in the grammar mentions (inhabitant of a top-level Any)."""


def _gen():
    yield 1


def inhabitants(t, depth=0):
    """Finite characteristic set of values of an *input* type under the strict reading."""
    import fxh

    if t is Any:
        return [Exotic()] if depth == 0 else []
    if is_anon_td(t):
        r, o = td_fields(t)
        cols = {k: inhabitants(ft, depth + 1) for k, ft in r.items()}
        if any(not c for c in cols.values()):
            return []
        base = {k: c[0] for k, c in cols.items()}
        out = [dict(base)]
        for k, ft in o.items():
            for v in inhabitants(ft, depth + 1)[:2]:
                out.append({**base, k: v})
        for k, c in cols.items():
            for v in c[1:3]:
                out.append({**base, k: v})
        return out
    o = origin(t)
    if o is Union:
        out = []
        for m in args(t):
            out.extend(inhabitants(m, depth))
        return out
    if is_bare_callable(t):
        return [len, fxh.func]
    if o is not None:
        a = args(t)
        if o is list:
            return [[]] + [[e] for e in inhabitants(a[0], depth + 1)]
        if o is set:
            out = [set()]
            for e in inhabitants(a[0], depth + 1):
                try:
                    out.append({e})
                except TypeError:
                    pass
            return out
        if o in (dict, collections.defaultdict):
            mk = (lambda: collections.defaultdict(list)) if o is collections.defaultdict else dict
            out = [mk()]
            ks = []
            for k in inhabitants(a[0], depth + 1):
                try:
                    hash(k)
                    ks.append(k)
                except TypeError:
                    pass
            vs_ = inhabitants(a[1], depth + 1)
            if ks and vs_:
                for i in range(max(len(ks), len(vs_))):
                    d = mk()
                    d[ks[i % len(ks)]] = vs_[i % len(vs_)]
                    out.append(d)
            return out
        if o is tuple:
            if a == ():
                return [()]
            if len(a) == 2 and a[1] is Ellipsis:
                es = inhabitants(a[0], depth + 1)
                return [(), tuple(es[:1]), tuple(es[:3])]
            cols = [inhabitants(x, depth + 1) for x in a]
            if any(not c for c in cols):
                return []
            out = [tuple(c[0] for c in cols)]
            for i, c in enumerate(cols):
                for alt in c[1:3]:
                    row = [cc[0] for cc in cols]
                    row[i] = alt
                    out.append(tuple(row))
            return out
        if o is type:
            return [a[0]] if isinstance(a[0], type) else []
        if o in (collections.abc.Iterator, collections.abc.Generator):
            return [_gen()]
        raise HarnessError("inhabitants: %r" % (t,))
    if isinstance(t, type):
        if t is NoneType:
            return [None]
        if t is bool:
            return [True]
        if t in (int, str, float, bytes):
            return [t()]
        if t is fxh.NT:
            return [fxh.NT(1, 2)]
        try:
            return [t()]
        except Exception:
            return []
    raise HarnessError("inhabitants: %r" % (t,))
