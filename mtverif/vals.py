"""Value grammar V: JSON-able specs -> runtime values. Specs are what Hypothesis draws and shrinks."""
import collections

from hypothesis import strategies as st

import fxh

LITS = [0, 1, -3, True, False, "a", "", "xyz", 1.5, None]
IDENT_KEYS = ["a", "b", "c", "d", "e", "key_1", "f", "g", "h", "i", "j", "k", "l"]
HOSTILE_KEYS = ["my-key", "class", "", "a b", "required_fields", "1x", "def", "é"]
CLASSES = [c.__qualname__ for c in fxh.CLASSES]
SPECIALS = ["func", "lambda", "builtin", "method", "genobj", "MyList", "MyDict", "MyStr", "MyTuple", "MySet", "NT", "bytes"]


def lit(x):
    return ["lit", x]


atoms = st.one_of(
    st.sampled_from([lit(x) for x in LITS]),
    st.sampled_from([["inst", c] for c in CLASSES]),
    st.sampled_from([["cls", c] for c in CLASSES] + [["cls", "int"], ["cls", "str"]]),
    st.sampled_from([["special", s] for s in SPECIALS]),
)
simple_atoms = st.sampled_from([lit(0), lit("a"), lit(None), lit(1.5), lit(True), ["inst", "Base"], ["inst", "D1"], ["inst", "D2"]])
hashable_atoms = st.one_of(
    st.sampled_from([lit(0), lit(1), lit(True), lit("a"), lit("b"), lit("c"), lit(1.5), lit(None)]),
    st.sampled_from([["inst", c] for c in CLASSES[:3]]),
    st.sampled_from([["cls", "Base"], ["cls", "int"], ["special", "builtin"], ["special", "NT"]]),
)


def hashable(depth):
    if depth <= 0:
        return hashable_atoms
    return st.one_of(hashable_atoms, st.lists(hashable(depth - 1), max_size=3).map(lambda l: ["tuple", l]))


def strkeys(hostile=False):
    return st.sampled_from(HOSTILE_KEYS + IDENT_KEYS[:3]) if hostile else st.sampled_from(IDENT_KEYS)


LABEL_KEYS = [False]  # switched on by the engines that stop at inferred types (a str-subclass key breaks stub syntax: C12's listed finding)


def strdict(sub, max_size=5, hostile=False):
    def key(name_and_flag):
        name, as_label = name_and_flag
        # ["labelkey", text]: an instance of a str subclass whose __str__ differs from the key it is
        return ["labelkey", name] if as_label and LABEL_KEYS[0] else lit(name)
    return st.lists(
        st.tuples(st.tuples(strkeys(hostile), st.sampled_from([False] * 7 + [True])).map(key), sub).map(list), max_size=max_size, unique_by=lambda kv: kv[0][1]
    ).map(lambda l: ["dict", l])


def values(depth=3, width=4, hostile=False):
    # engines that stop at inferred types (LABEL_KEYS on) also get instances of two distinct classes that print alike
    atoms_ = st.one_of(atoms, atoms, st.sampled_from([["special", "twinA"], ["special", "twinB"], ["list", [["special", "twinA"]]], ["list", [["special", "twinB"]]], ["special", "localBase"], ["list", [["special", "localBase"], ["lit", 0]]],
                                                    ["special", "cursor"], ["list", [["special", "cursor"], ["lit", 0]]]])) if LABEL_KEYS[0] else atoms
    if depth <= 0:
        return atoms_
    sub = values(depth - 1, width, hostile)
    return st.one_of(
        atoms_,
        st.lists(sub, max_size=width).map(lambda l: ["list", l]),
        st.lists(sub, max_size=3).map(lambda l: ["tuple", l]),
        st.lists(hashable(1), max_size=width).map(lambda l: ["set", l]),
        strdict(sub, width + 1, hostile),
        st.lists(st.tuples(hashable(1), sub).map(list), max_size=width).map(lambda l: ["dict", l]),
        st.lists(st.tuples(hashable(0), sub).map(list), max_size=3).map(lambda l: ["ddict", l]),
        # other standard-library containers: inferred as their plain class (not descended into) on the pinned tree
        st.one_of(st.lists(sub, max_size=3).map(lambda l: ["deque", l]),
                  st.lists(st.tuples(st.sampled_from(IDENT_KEYS[:3]).map(lit), sub).map(list), max_size=2, unique_by=lambda kv: kv[0][1]).map(lambda l: ["odict", l]),
                  st.lists(hashable(0), max_size=3).map(lambda l: ["fset", l])),
    )


def build_shared(spec, memo):
    """like build, but identical mutable-container sub-specs become ONE object referenced from every position where the
    spec occurs (an acyclic value with aliasing: `[row] * 3`, `{"a": rec, "b": rec}`); memo may be shared by several
    top-level values"""
    k = spec[0]
    if k in ("list", "dict", "ddict"):
        key = repr(spec)
        if key in memo:
            return memo[key]
    if k == "list":
        v = [build_shared(e, memo) for e in spec[1]]
    elif k == "tuple":
        return tuple(build_shared(e, memo) for e in spec[1])
    elif k == "dict":
        v = {build_shared(a, memo): build_shared(b, memo) for a, b in spec[1]}
    elif k == "ddict":
        v = collections.defaultdict(list)
        for a, b in spec[1]:
            v[build_shared(a, memo)] = build_shared(b, memo)
    else:
        return build(spec)
    memo[repr(spec)] = v
    return v


def has_repeated_container(specs):
    """some mutable-container sub-spec occurs at two positions (then build_shared really aliases something)"""
    seen = set()
    found = [False]

    def walk(s):
        if s[0] in ("list", "dict", "ddict"):
            key = repr(s)
            if key in seen:
                found[0] = True
            seen.add(key)
        if s[0] in ("list", "tuple", "set"):
            for e in s[1]:
                walk(e)
        elif s[0] in ("dict", "ddict"):
            for a, b in s[1]:
                walk(a)
                walk(b)

    for s in specs:
        walk(s)
    return found[0]


def build(spec):
    k = spec[0]
    if k == "lit":
        return spec[1]
    if k == "labelkey":
        return fxh.LabelStr(spec[1])
    if k in ("inst", "cls"):
        if spec[1] in ("int", "str"):
            return {"int": int, "str": str}[spec[1]]
        o = fxh
        for p in spec[1].split("."):
            o = getattr(o, p)
        return o() if k == "inst" else o
    if k == "special":
        s = spec[1]
        if s == "func":
            return fxh.func
        if s == "lambda":
            return lambda: 0
        if s == "builtin":
            return len
        if s == "method":
            return fxh.K().m
        if s == "genobj":
            return fxh.genf()
        if s == "MyList":
            return fxh.MyList([1])
        if s == "MyDict":
            return fxh.MyDict(a=1)
        if s == "MyStr":
            return fxh.MyStr("s")
        if s == "MyTuple":
            return fxh.MyTuple((1,))
        if s == "MySet":
            return fxh.MySet({1})
        if s == "NT":
            return fxh.NT(1, "x")
        if s == "bytes":
            return b"x"
        if s == "cursor":
            return fxh.Cursor()
        if s == "localBase":
            return fxh.make_local_base()
        if s == "twinA":
            return fxh.TwinA()
        if s == "twinB":
            return fxh.TwinB()
    if k == "list":
        return [build(e) for e in spec[1]]
    if k == "tuple":
        return tuple(build(e) for e in spec[1])
    if k == "set":
        return set(build(e) for e in spec[1])
    if k == "dict":
        return {build(a): build(b) for a, b in spec[1]}
    if k == "ddict":
        # the declared factory says nothing about the values actually stored: it varies with the content
        import zlib
        d = collections.defaultdict([list, int, float, str, None, bytes][zlib.crc32(repr(spec[1]).encode()) % 6])
        for a, b in spec[1]:
            d[build(a)] = build(b)
        return d
    if k == "deque":
        return collections.deque(build(e) for e in spec[1])
    if k == "odict":
        return collections.OrderedDict((build(a), build(b)) for a, b in spec[1])
    if k == "fset":
        return frozenset(build(e) for e in spec[1])
    raise ValueError(spec)


def depth_of(spec):
    if spec[0] in ("list", "tuple", "set"):
        return 1 + max([depth_of(e) for e in spec[1]] or [0])
    if spec[0] in ("dict", "ddict"):
        return 1 + max([max(depth_of(a), depth_of(b)) for a, b in spec[1]] or [0])
    return 0


def shape_of(spec):
    """Coarse shape label of one value spec (used for non-triviality and path labels; from inputs only)."""
    k = spec[0]
    if k == "dict":
        if not spec[1]:
            return "emptydict"
        return "strdict" if all(a[0] == "lit" and isinstance(a[1], str) for a, _ in spec[1]) else "dict"
    if k in ("list", "tuple", "set", "ddict"):
        return k if spec[1] else "empty" + k
    return k + ":" + str(spec[1]) if k != "lit" else "lit:" + type(spec[1]).__name__


def _repeat(p):
    x, how = p
    if how == "list2":
        return ["list", [x, x]]
    if how == "list3":
        return ["list", [x, x, x]]
    if how == "tuple2":
        return ["tuple", [x, x]]
    if how == "dict2":
        return ["dict", [[lit("a"), x], [lit("b"), x]]]
    if how == "pairs":
        return ["list", [["tuple", [x, lit(1)]], ["tuple", [x, lit("s")]]]]
    return ["list", [["list", [x]], x]]


PROFILES = ["free", "strdicts", "lists", "tuples", "mixed1", "lists_of_strdicts", "sets", "nested_strdicts", "same"]


def shaped_multiset(depth=2, hostile=False, max_size=5):
    """A multiset of values drawn through a shape profile, so that every merge path is hit often."""
    sub = values(depth, hostile=hostile)
    sd = strdict(sub, 5, hostile)
    sd_small = strdict(st.one_of(simple_atoms, sd), 4, hostile)
    lst = st.lists(st.one_of(sub, sd), max_size=4).map(lambda l: ["list", l])
    tup = st.lists(st.one_of(sub, sd), max_size=3).map(lambda l: ["tuple", l])
    sets = st.lists(hashable(1), max_size=4).map(lambda l: ["set", l])
    # "records": small key alphabet, simple values, so that key sets overlap and second-level merges
    # (TypedDicts that already carry optional fields, merged again) happen often
    rkey = st.sampled_from(["a", "b", "c", "d"] + (HOSTILE_KEYS[:2] if hostile else [])).map(lit)
    rval = st.sampled_from([lit(0), lit("x"), lit(None), lit(1.5), ["inst", "D1"], ["list", []], ["dict", []]])
    record = st.lists(st.tuples(rkey, rval).map(list), max_size=3, unique_by=lambda kv: kv[0][1]).map(lambda l: ["dict", l])
    record2 = st.lists(st.tuples(rkey, st.one_of(rval, record)).map(list), min_size=1, max_size=3, unique_by=lambda kv: kv[0][1]).map(lambda l: ["dict", l])
    recs = st.lists(st.one_of(record, record2), max_size=3).map(lambda l: ["list", l])
    wrapped = st.one_of(
        recs,
        recs,
        st.lists(recs, max_size=2).map(lambda l: ["list", l]),
        record2.map(lambda r: ["tuple", [r]]),
        st.tuples(record, record2).map(lambda p: ["tuple", list(p)]),
        record2.map(lambda r: ["dict", [[lit(0), r]]]),
        record2,
    )
    return st.one_of(
        st.lists(wrapped, min_size=2, max_size=4),
        st.lists(recs, min_size=2, max_size=4),
        st.lists(st.one_of(wrapped, st.sampled_from([lit(None), lit(0)])), min_size=2, max_size=4),
        st.lists(values(depth + 1, hostile=hostile), max_size=max_size),
        st.lists(sd, min_size=1, max_size=max_size),
        st.lists(lst, min_size=1, max_size=max_size),
        st.lists(tup, min_size=1, max_size=4),
        st.lists(st.one_of(sd, lst, atoms), min_size=1, max_size=max_size),
        st.lists(st.lists(sd, max_size=3).map(lambda l: ["list", l]), min_size=1, max_size=4),
        st.lists(sets, min_size=1, max_size=4),
        st.lists(sd_small, min_size=2, max_size=max_size),
        st.tuples(sub, st.integers(2, 4)).map(lambda p: [p[0]] * p[1]),
        # the same container sub-spec at sibling positions (built as one shared object by build_shared)
        st.lists(st.tuples(st.one_of(lst, sd, sd_small, recs), st.sampled_from(["list2", "list3", "tuple2", "dict2", "pairs", "nested"])).map(_repeat), min_size=1, max_size=3),
    )


def k_for(specs, draw_int):
    """TypedDict size limits relative to the case: |keys|-1, |keys|, |union of keys|, +1, and the fixed set."""
    sizes = set()
    allkeys = set()

    def walk(s):
        if s[0] == "dict":
            ks = [a[1] for a, _ in s[1] if a[0] == "lit" and isinstance(a[1], str)]
            if ks:
                sizes.add(len(ks))
                allkeys.update(ks)
            for a, b in s[1]:
                walk(b)
        elif s[0] in ("list", "tuple", "set"):
            for e in s[1]:
                walk(e)
        elif s[0] == "ddict":
            for a, b in s[1]:
                walk(b)

    for s in specs:
        walk(s)
    cands = [0, 1, 2, 3, 10, 200]
    for n in sorted(sizes) + [len(allkeys)]:
        cands += [max(n - 1, 0), n, n + 1, n]
    return cands[draw_int % len(cands)]
