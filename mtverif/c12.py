"""C12 - stubs are valid Python and mirror the traced functions' real signatures."""
import ast
import importlib
import sys
import inspect

from hypothesis import given, strategies as st

from monkeytype.stubs import ExistingAnnotationStrategy as EAS, build_module_stubs_from_traces

from . import core, sigsynth, stubread, tracerun

LEVEL = "exploration"
RULE = ("generated modules of 1..4 functions: module functions, instance/class/static methods, properties, methods of classes "
        "one, two and three levels deep, coroutine functions and generators (also as methods), 0..8 parameters of every kind "
        "combination with defaults (incl. None), names long enough to force the 120-column wrapping, optional source annotations; "
        "a drawn subset traced with synthesised CallTraces (receiver types included, long generic types, TypedDicts with "
        "identifier and hostile keys) x strategy x k in {0,3}; plus an exhaustive sweep of parameter-kind combinations up to 4 "
        "parameters. Oracle: ast of the stub vs inspect of the live module. Non-trivial: a traced function with >=2 parameter "
        "kinds, or a wrapped signature, or nested in a class; distinct by digest of the module spec.")
ASSUMPTIONS = ["source never annotates self/cls (DESIGN 3.8)"]

KIND = {0: "posonly", 1: "poskw", 2: "vararg", 3: "kwonly", 4: "varkw"}


def check_module(ctx, funcs, strat, k, sc, pid="C12", c13=None, via_rows=False, rewriter=None):
    # the receiver is annotated in source only under OMIT, where C12 and C13 agree that the stub must not show it
    src = sigsynth.render(funcs, annotate_receiver=strat == EAS.OMIT)
    for f_ in funcs:
        f_.pop('_annotate_receiver', None)
    if (len(funcs) + k) % 2 == 1:
        # every other case re-executes ONE module name with new source (a reloading server, a notebook, a test session that
        # re-imports): an earlier version of the module, in which the class-level functions had another kind (`K.fn0` was a
        # class method a moment ago and is a method now), is traced and stubbed first under the very same name
        import copy
        import os
        import shutil
        name = f"mtv_sigsame{sc.tag}"
        path = os.path.join(sc.dir, name + ".py")
        rot = {"method": "classmethod", "classmethod": "staticmethod", "staticmethod": "method", "asyncmethod": "staticmethod",
               "genmethod": "classmethod", "subclassmethod": "method", "substaticmethod": "classmethod"}
        before = copy.deepcopy(funcs)
        for f_ in before:
            f_["where"] = rot.get(f_["where"], f_["where"])
            f_["is_traced"] = True
        for text_ in (sigsynth.render(before, annotate_receiver=False), src):
            with open(path, "w") as fh:
                fh.write(text_)
            shutil.rmtree(os.path.join(sc.dir, "__pycache__"), ignore_errors=True)
            importlib.invalidate_caches()
            if text_ is not src:
                try:
                    mod0 = importlib.import_module(name)
                    traces0, _ = sigsynth.traces_for(mod0, before, k)
                    build_module_stubs_from_traces(traces0, k, strat, rewriter=rewriter)[name].render()
                except Exception:
                    pass
                sys.modules.pop(name, None)
        for f_ in before:
            f_.pop('_annotate_receiver', None)
        ctx.label("module-name-re-executed")
    else:
        name, path = sc.new_module(src, stem="mtv_sig")
    spec = ["SIG", funcs, strat.name, k] + (["via-rows"] if via_rows else []) + (["rewriter:default"] if rewriter is not None else [])
    try:
        try:
            mod = importlib.import_module(name)
        except Exception as e:
            raise core.HarnessError(f"generated signature module does not import: {e!r}\n{src}")
        traces, live = sigsynth.traces_for(mod, funcs, k)
        if via_rows and not sigsynth.uses_hostile(funcs):
            # as the CLI sees them: every trace encoded into a store row and decoded again (function lookup by module + qualname)
            from monkeytype.encoding import CallTraceRow
            try:
                traces = [CallTraceRow.from_trace(t).to_trace() for t in traces]
            except Exception as e:
                return ctx.fail(f"{pid}/trace-does-not-survive-the-store:{type(e).__name__}", ["SIG", funcs, strat.name, k, "via-rows"], f"{e!r}\n{src}")
        if not traces:
            ctx.case(spec, False, ["nothing-traced"])
            return
        hostile, nested = sigsynth.uses_hostile(funcs), sigsynth.uses_nested(funcs)
        # every third case: a SECOND module with the same source (hence same-named classes) whose traced subset is the
        # complement, stubbed in the same call - each module's stub must hold its own functions only
        name2 = path2 = None
        traces_all = list(traces)
        if len(funcs) % 3 == 0 or len([f for f in funcs if f["is_traced"]]) >= 3:
            import copy
            funcs2 = copy.deepcopy(funcs)
            for f2 in funcs2:
                f2["is_traced"] = not f2["is_traced"]
            if not any(f2["is_traced"] for f2 in funcs2):
                funcs2[0]["is_traced"] = True
            name2, path2 = sc.new_module(src, stem="mtv_sigb")
            mod2 = importlib.import_module(name2)
            traces2, live2 = sigsynth.traces_for(mod2, funcs2, k)
            traces_all = traces2[: len(traces2) // 2] + list(traces) + traces2[len(traces2) // 2:]
        try:
            stubs = build_module_stubs_from_traces(traces_all, k, strat, rewriter=rewriter)
            text = stubs[name].render()
            if name2 is not None:
                text2 = stubs[name2].render() if name2 in stubs else ""
                got2 = set(stubread.read_stub(text2, vars(mod2))["funcs"]) if text2 else set()
                if not (sigsynth.uses_hostile(funcs2) or nested) and got2 != set(live2):
                    return ctx.fail(f"{pid}/function-set-differs", spec + ["two-modules"], f"second module of the same build: stub has {sorted(got2)}, traced {sorted(live2)}\n{text2}")
                ctx.label("two-modules-one-build")
        except core.Violation:
            raise
        except Exception as e:
            return ctx.fail(f"{pid}/stub-generation-raises:{type(e).__name__}", spec, f"{e!r}\n{src}")
        finally:
            if name2 is not None:
                sc.drop(name2, path2)
        wrapped = any(l.rstrip().endswith("(") for l in text.splitlines())
        stub = stubread.read_stub(text, vars(mod))
        nt = any(len({p["kind"] for p in f["ps"]}) + bool(f["varargs"]) + bool(f["varkw"]) >= 2 or f["where"] not in ("top", "async", "gen")
                 for f in funcs if f["is_traced"]) or wrapped
        if c13 is not None:
            tf = [f for f in funcs if f["is_traced"]]
            nt = any(p["anno"] for f in tf for p in f["ps"]) or any(f["ret_anno"] for f in tf)
            nt = nt and any(p["traced"] != 0 for f in tf for p in f["ps"])
        ctx.case(spec, nt, ["strategy:" + strat.name, "rewriter:" + ("default" if rewriter is not None else "noop")] + (["wrapped-signature"] if wrapped else []) + (["nested-class"] if nested else []) +
                 (["hostile-typeddict-keys"] if hostile else []) + sorted({"where:" + f["where"] for f in funcs if f["is_traced"]}))
        if c13 is not None:
            return c13(ctx, spec, mod, funcs, live, stub, strat, text, src)
        if stub["nested_headers"]:
            ctx.fail(f"{pid}/nested-class-header-not-valid-python", spec, f"methods of a nested class are rendered under `class {stub['nested_headers'][0]}:`\n{text[:600]}")
        if stub["syntax_error"] is not None:
            lines = text.splitlines()
            ln = stub["syntax_error"].lineno or 0
            bad = lines[ln - 1] if 0 < ln <= len(lines) else ""
            import re as _re
            if hostile and _re.match(r"^\s+(my-key|class): ", bad):
                # listed finding: the offending line is a field of a generated TypedDict class whose key is not an identifier
                return ctx.fail(f"{pid}/typeddict-key-not-an-identifier", spec, f"stub does not parse: a generated TypedDict class has a field that is not an identifier\n{text[:500]}")
            return ctx.fail(f"{pid}/stub-does-not-parse", spec, f"{stub['syntax_error']}\n{text}")
        got_keys = {}
        for key, infos in stub["funcs"].items():
            got_keys[key] = len(infos)
        if set(got_keys) != set(live):
            return ctx.fail(f"{pid}/function-set-differs", spec, f"stub has {sorted(got_keys)}, traced {sorted(live)}\n{text}")
        dup = [k_ for k_, n in got_keys.items() if n != 1]
        if dup:
            return ctx.fail(f"{pid}/function-appears-more-than-once", spec, f"{dup}\n{text}")
        if stub.get("other_statements"):
            return ctx.fail(f"{pid}/unexpected-statement-in-stub", spec, f"{stub['other_statements']}\n{text}")
        tdnames = set(stub["tdclasses"])
        if tdnames and not any(isinstance(t, type) and t.__name__ == "DUMMY_NAME" for tr in traces for t in list(tr.arg_types.values()) + [tr.return_type, tr.yield_type]):
            return ctx.fail(f"{pid}/untraced-class-in-stub", spec, f"classes {sorted(tdnames)}\n{text}")
        for key, (fn, f, at, rt, yt) in live.items():
            info = stub["funcs"][key][0]
            node = info["node"]
            w = f["where"]
            where = f"{'.'.join(key[0] + (key[1],))}"
            kind = inspect.getattr_static(_owner(mod, key[0]), key[1]) if key[0] else fn
            want_dec = ["classmethod"] if isinstance(kind, classmethod) else ["staticmethod"] if isinstance(kind, staticmethod) else ["property"] if isinstance(kind, property) else []
            if info["decorators"] != want_dec:
                return ctx.fail(f"{pid}/decorator-differs", spec, f"{where}: {info['decorators']} expected {want_dec}\n{text}")
            if info["async"] != inspect.iscoroutinefunction(fn):
                return ctx.fail(f"{pid}/async-differs", spec, f"{where}: async={info['async']}\n{text}")
            s = inspect.signature(fn)
            a = node.args
            got = ([(x.arg, 0) for x in a.posonlyargs] + [(x.arg, 1) for x in a.args] + ([(a.vararg.arg, 2)] if a.vararg else [])
                   + [(x.arg, 3) for x in a.kwonlyargs] + ([(a.kwarg.arg, 4)] if a.kwarg else []))
            want = [(n, int(p.kind)) for n, p in s.parameters.items()]
            if got != want:
                return ctx.fail(f"{pid}/parameter-list-differs", spec, f"{where}: stub {[(n, KIND[k_]) for n, k_ in got]} live {[(n, KIND[k_]) for n, k_ in want]}\n{text}")
            ndef = len(a.defaults)
            want_def = sum(1 for p in s.parameters.values() if int(p.kind) in (0, 1) and p.default is not p.empty)
            kwd = [d is not None for d in a.kw_defaults]
            want_kwd = [p.default is not p.empty for p in s.parameters.values() if int(p.kind) == 3]
            if ndef != want_def or kwd != want_kwd:
                return ctx.fail(f"{pid}/defaults-differ", spec, f"{where}: positional defaults {ndef}/{want_def}, keyword-only {kwd}/{want_kwd}\n{text}")
            if w not in ("top", "async", "gen", "typescoro", "staticmethod", "substaticmethod"):
                first = (a.posonlyargs + a.args)[0]
                if first.annotation is not None:
                    return ctx.fail(f"{pid}/receiver-annotated", spec, f"{where}: receiver `{first.arg}` is annotated {ast.unparse(first.annotation)}\n{text}")
    finally:
        sc.drop(name, path)


def _owner(mod, path):
    o = mod
    for p in path:
        o = getattr(o, p)
    return o


def exhaustive_kinds(ctx, sc):
    """every parameter-kind sequence up to 4 parameters x defaults pattern x *args/**kwargs x 3 placements"""
    import itertools
    idx = 0
    for n in range(0, 5):
        for kinds in itertools.combinations_with_replacement([0, 1, 2], n):
            for defmask in range(2 ** n) if n <= 3 else (0, 2 ** n - 1, 5):
                for va, vk in itertools.product([None, "args"], [None, "kwargs"]):
                    idx += 1
                    if idx % ctx.nshards != ctx.shard or (ctx.tier == "quick" and idx % 4 != ctx.seed % 4):
                        continue
                    ps, seen = [], False
                    for j, kd in enumerate(kinds):
                        d = "None" if (defmask >> j) & 1 else None
                        if kd != 2:
                            if d is not None:
                                seen = True
                            elif seen:
                                d = "1"
                        ps.append(dict(name=sigsynth.NAMES[j], kind=kd, default=d, anno=None, traced=[1, 2, 0, 3][j % 4]))
                    funcs = []
                    for i, w in enumerate(["top", "method", "classmethod"]):
                        funcs.append(dict(i=i, ps=[dict(p) for p in ps], varargs=va, varkw=vk, where=w, ret_anno=None, outcome="return",
                                          ret_traced=1, yield_traced=1, is_traced=True, fname="fn%d" % i))
                    try:
                        check_module(ctx, funcs, EAS.REPLICATE, 0, sc)
                    except core.Violation as v:
                        ctx.record_violation(v.signature, v.spec, v.message)


def shard(ctx):
    q = ctx.tier == "quick"
    sc = tracerun.Scratch("c12-")
    try:
        def factory(ctx):
            @given(sigsynth.module(), st.sampled_from(list(EAS)), st.sampled_from([0, 3]), st.sampled_from([False, False, True]), st.booleans())
            def test(funcs, strat, k, via_rows, rw):
                from monkeytype.typing import DEFAULT_REWRITER
                check_module(ctx, funcs, strat, k, sc, via_rows=via_rows, rewriter=DEFAULT_REWRITER if rw else None)
            return test
        core.run_hypothesis(ctx, factory, 500 if q else 4000)
        exhaustive_kinds(ctx, sc)
    finally:
        sc.close()


def run(ctx):
    core.run_sharded(ctx, __name__, "shard", 8 if ctx.tier == "quick" else 16)


def replay(ctx, case):
    sc = tracerun.Scratch("c12-")
    try:
        from monkeytype.typing import DEFAULT_REWRITER
        check_module(ctx, case[1], EAS[case[2]], case[3], sc, via_rows="via-rows" in case[4:], rewriter=DEFAULT_REWRITER if "rewriter:default" in case[4:] else None)
    finally:
        sc.close()
