#!/bin/bash
# Offline setup: hypothesis into /venv (if missing), atheris into /verif/.deps (optional engine).
HERE="$(cd "$(dirname "${BASH_SOURCE[0]}")" && pwd)"
PY=/venv/bin/python
"$PY" -c "import hypothesis" 2>/dev/null || "$PY" -m pip install -q --no-index --find-links /opt/veriftools/wheels hypothesis || exit 1
mkdir -p "$HERE/.deps"
PYTHONPATH="$HERE/.deps" "$PY" -c "import atheris" 2>/dev/null || "$PY" -m pip install -q --no-index --find-links /opt/veriftools/wheels --target "$HERE/.deps" atheris || echo "note: atheris not installed (optional thorough-tier engine)"
"$PY" -c "import hypothesis, monkeytype, os; assert os.path.realpath(monkeytype.__file__).startswith('/repo/'), monkeytype.__file__; print('setup ok: hypothesis', hypothesis.__version__)"
