"""Fixture class hierarchy for the value grammar (importable by module + qualname)."""
import collections


class Base:
    pass


class D1(Base):
    pass


class D2(Base):
    pass


class DD(D1):
    pass


class Other:
    pass


class Mixed(D1, Other):
    pass


class Outer:
    class Inner:
        class Deep:
            pass


class MyList(list):
    pass


class MyDict(dict):
    pass


class MyStr(str):
    pass


class LabelStr(str):
    """a str subclass whose str() is not the key itself (like `class Color(str, Enum)` on 3.11+)"""

    def __str__(self):
        return "<" + str.__str__(self) + ">"


class MyTuple(tuple):
    pass


class MySet(set):
    pass


class _CountingMeta(type):
    """a registry-style metaclass: the class is falsy while nothing is registered"""

    def __len__(cls):
        return 0


class Registry(metaclass=_CountingMeta):
    pass


NT = collections.namedtuple("NT", "a b")


def func(x):
    return x


def genf():
    yield 1


class K:
    def m(self):
        pass


CLASSES = [Base, D1, D2, DD, Other, Mixed, Outer.Inner, Outer.Inner.Deep, Registry]


# further members of the Base hierarchy (not in CLASSES: used by name where a check needs a wide hierarchy)
class D3(Base):
    pass


class D4(Base):
    pass


class D5(D2):
    pass


class Mixed2(D3, Other):
    pass


# classes that list the SAME two bases in different orders: both `Base` and `Other` are common bases of all six, and which of
# the two comes first in the MRO differs between the MA and the MB classes
class MA1(Base, Other):
    pass


class MA2(Base, Other):
    pass


class MA3(Base, Other):
    pass


class MB1(Other, Base):
    pass


class MB2(Other, Base):
    pass


class MB3(Other, Base):
    pass


# two DIFFERENT classes that print alike (same module, same name): what a class factory or a reload leaves behind. Only
# one of them is `fxh.Twin`; neither can be told from the other by repr() or by module + qualified name.
TwinA = type("Twin", (), {"__module__": __name__})
TwinB = type("Twin", (), {"__module__": __name__})
Twin = TwinB


def _define_local_base():
    class Base:  # noqa: F811
        pass

    return Base


_LOCAL_BASE = _define_local_base()


def make_local_base():
    """an instance of a class defined inside a function (its qualified name contains `<locals>`: it cannot be found again by
    module + qualified name) whose simple name coincides with the module-level `Base`"""
    return _LOCAL_BASE()


class Cursor:
    """an ordinary class that happens to implement the iterator protocol (a database cursor, a tokenizer): NOT a generator"""
    def __init__(self):
        self.left = 2

    def __iter__(self):
        return self

    def __next__(self):
        if not self.left:
            raise StopIteration
        self.left -= 1
        return self.left
