"""target module of C11: functions whose traces carry generated types"""


class Own:
    class OwnNested:
        pass


def f(a, b=None, *, c=1):
    return a


def g(x, y):
    return x


def gen(n):
    yield n


class T:
    def m(self, a, b=None):
        return a

    @classmethod
    def cm(cls, a):
        return a

    @staticmethod
    def sm(a, b):
        return a

    class In:
        def im(self, a):
            return a
