"""target module of C11: functions whose traces carry generated types"""


class Own:
    class OwnNested:
        pass


def f(a, b=None, *, c=1):
    return a


def g(x, y):
    return x


def gen(n):
    yield n


class T:
    def m(self, a, b=None):
        return a

    @classmethod
    def cm(cls, a):
        return a

    @staticmethod
    def sm(a, b):
        return a

    class In:
        def im(self, a):
            return a


def h1(a, b=None):
    """h1 and h2 have IDENTICAL signatures (names, kinds, defaults): with the same traced types their stubs are equal"""
    return a


def h2(a, b=None):
    return a


def ell(ellipsis_opts, with_ellipsis=None):
    """parameter names containing the word Ellipsis (their generated TypedDict classes are named after them)"""
    return ellipsis_opts
