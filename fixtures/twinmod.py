"""a module with a class named like a class of another fixture module (fxh.Outer); its name overlaps with no other module"""


class Outer:
    class Nested:
        pass


class TwinA:
    pass
