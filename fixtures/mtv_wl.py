"""Workload module for C03 (traced): one tripwire object placed in one role. `workload` itself is excluded
from tracing by the filter; everything else in this file is traced."""
import mtv_trip as T

# placeholders defined before every class/function of this module, so that a tripwire stored here is met by a
# scan of the module globals before the scan finds what it is looking for
aaa_first = None
sm = None


def ident(x):
    return x


def wrap(x):
    return [x, (x,), {"k": x}]


def gen2(a, b):
    yield a
    yield b
    return a


def kw(*, key=None, **rest):
    return key


async def coro(x):
    return x


class K:
    def m(self, x):
        return x

    @staticmethod
    def sm(x):
        return x

    @classmethod
    def cm(cls, x):
        return x

    @property
    def prop(self):
        return self._v


class HK(T.Hookable):
    def own(self, x):
        return x


def outer(x):
    def inner(y):
        return y

    return inner(x)


def boom(x):
    raise ValueError("boom")


class Res:
    """a resource with an observable finalizer"""

    def __init__(self, tag):
        self.tag = tag

    def __del__(self):
        print("released", self.tag)


def fails_holding(res):
    held = res
    raise ValueError("boom while holding " + held.tag)


def returns_holding(res):
    held = res
    return held.tag


def workload(make, make2, role):
    v = make()
    out = []
    if role == "arg":
        out.append(type(ident(v)).__name__)
    elif role == "kwarg":
        out.append(type(kw(key=v, other=v)).__name__)
    elif role == "elem":
        out.append(len(wrap(v)))
    elif role == "nested-elem":
        out.append(len(ident([[v], {"a": [v, make2()]}, (v, [make2()])])))
    elif role == "sets-profiler":
        # the traced code changes the profiler itself (a scoped profiler that ends by switching profiling off, as
        # profile.Profile.runcall does): when the tracing block ends, the profiler installed BEFORE it is back all the same
        out.append(type(ident(v)).__name__)
        __import__("sys").setprofile(None)
        out.append(type(ident(v)).__name__)
    elif role == "same-shape-nesting":
        # a container inside a container of the same kind and length (a 1x1 matrix, a pair of pairs, a dict under the same key):
        # comparing the inner with the outer one would compare the ELEMENTS, i.e. run their __eq__
        out.append(len(ident([[v]])))
        out.append(len(ident(((v, 1), (2, 3)))))
        out.append(len(ident({"x": {"x": v}})))
        out.append(len(ident([[[v]]])))
    elif role == "dictkey":
        try:
            out.append(type(ident({v: 1})).__name__)
        except TypeError:
            out.append("unhashable")
    elif role == "setelem":
        try:
            out.append(type(ident({v})).__name__)
        except TypeError:
            out.append("unhashable")
    elif role == "yield":
        out.append(len(list(gen2(v, make2()))))
    elif role == "return-only":
        k = K()
        k._v = v
        out.append(type(k.prop).__name__)
    elif role == "receiver":
        h = HK("recv")
        out.append(h.own(1))
    elif role == "method-arg":
        out.append(type(K().m(v)).__name__)
        out.append(type(K.sm(v)).__name__)
        out.append(type(K.cm(v)).__name__)
    elif role == "coro-arg":
        c = coro(v)
        try:
            c.send(None)
        except StopIteration as s:
            out.append(type(s.value).__name__)
    elif role == "global":
        globals()["sm"] = v
        globals()["aaa_first"] = v
        try:
            out.append(K.sm(1))
            out.append(K().m(2))
            out.append(ident(3))
        finally:
            globals()["sm"] = None
            globals()["aaa_first"] = None
    elif role == "nested-arg":
        # the value is an argument of a nested function / a lambda: on their first call the function object is only found
        # through the locals of the frames on the stack, and the value is one of those locals
        out.append(type(outer(v)).__name__)
        out.append(type((lambda z: z)(v)).__name__)
    elif role == "caller-local":
        held = v
        out.append(outer(3))
        del held
    elif role == "exception":
        try:
            boom(v)
        except ValueError as e:
            out.append(str(e))
    elif role == "finalizer":
        # when a traced call raises, its frame (and what it holds) must be released when it would be untraced
        try:
            fails_holding(Res("r1"))
        except ValueError as e:
            print("handled", e)
        print("after handler")
        out.append(returns_holding(Res("r2")))
        print("after return")
        out.append(type(ident(v)).__name__)
    elif role == "suspended-gen":
        # one generator still suspended when the tracing block ends, one closed early, one abandoned
        g = gen2(v, make2())
        next(g)
        globals()["_suspended"] = g
        g2 = gen2(1, 2)
        next(g2)
        g2.close()
        g3 = gen2(1.5, None)
        next(g3)
        del g3
        out.append(type(ident(v)).__name__)
    elif role == "big-container-lifetime":
        # containers of 40 and 300 finalizable elements passed to traced calls and then dropped: they (and their elements) are
        # released when the program drops them, not when the tracer gets round to it
        for n in (40, 300):
            lst = [Res("b%d" % i) for i in range(n)]
            out.append(len(ident(lst)))
            d = {i: Res("d%d" % i) for i in range(n)}
            out.append(len(wrap(d)))
            print("dropping", n)
            del lst, d
            print("dropped", n)
        out.append(type(ident(v)).__name__)
    elif role == "consume":
        r = ident(v)
        try:
            out.append(sum(1 for _ in r))
            out.append(sum(1 for _ in ident(r)))
        except TypeError:
            out.append("not iterable")
    print("workload", role, len(out))
    return out


ROLES = ["arg", "kwarg", "elem", "nested-elem", "same-shape-nesting", "sets-profiler", "dictkey", "setelem", "yield", "return-only", "receiver", "method-arg",
         "coro-arg", "global", "nested-arg", "suspended-gen", "big-container-lifetime", "caller-local", "exception", "consume", "finalizer"]
