"""Untraced tripwire catalogue: every hook journals (protocol, attribute, label). Objects carry a label that
names their role in the workload. RAISE[0] makes every hook raise after journaling (inspection-fault objects)."""
JOURNAL = []
RAISE = [False]


class InspectionFault(RuntimeError):
    pass


def note(proto, attr, label):
    JOURNAL.append((proto, attr, label))
    if RAISE[0]:
        raise InspectionFault(f"{proto} {attr} {label}")


class Hookable:
    def __init__(self, label="v"):
        object.__setattr__(self, "_label", label)

    def __getattribute__(self, name):
        if name != "_label":
            note("__getattribute__", name, object.__getattribute__(self, "_label"))
        return object.__getattribute__(self, name)

    def meth(self, x):
        return x


class GetAttr:
    def __init__(self, label="v"):
        self._label = label

    def __getattr__(self, name):
        note("__getattr__", name, self.__dict__.get("_label"))
        raise AttributeError(name)


_T = __import__("typing").TypeVar("_T")


class GenHook(__import__("typing").Generic[_T]):
    """a user-defined generic class whose instances journal every attribute read (created bare and as GenHook[int](...))"""
    def __init__(self, label="v"):
        object.__setattr__(self, "_label", label)

    def __getattribute__(self, name):
        if name != "_label":
            note("__getattribute__", name, object.__getattribute__(self, "_label"))
        return object.__getattribute__(self, name)


class GenLazy(__import__("typing").Generic[_T]):
    """a lazy proxy written as a generic class: reading any attribute it does not have forces the load"""
    def __init__(self, label="v"):
        self._label = label

    def __getattr__(self, name):
        note("__getattr__", name, self.__dict__.get("_label"))
        raise AttributeError(name)


class ClassProp:
    def __init__(self, label="v"):
        self._label = label

    @property
    def __class__(self):
        note("__class__ property", "__class__", self._label)
        return ClassProp


class LazyDesc:
    def __get__(self, obj, typ=None):
        note("descriptor __get__", "lazy", getattr(obj, "_label", "cls"))
        return 1


class WithDesc:
    lazy = LazyDesc()

    def __init__(self, label="v"):
        self._label = label

    @property
    def lazyprop(self):
        note("lazy property", "lazyprop", self._label)
        return 2


class Proto:
    def __init__(self, label="v"):
        self._label = label

    def __hash__(self):
        note("__hash__", "", self._label)
        return 1

    def __eq__(self, o):
        note("__eq__", "", self._label)
        return self is o

    def __bool__(self):
        note("__bool__", "", self._label)
        return True

    def __repr__(self):
        note("__repr__", "", self._label)
        return "P"

    def __len__(self):
        note("__len__", "", self._label)
        return 0

    def __iter__(self):
        note("__iter__", "", self._label)
        return iter(())

    def __contains__(self, x):
        note("__contains__", "", self._label)
        return False


class CallableObj:
    """a callable local: function lookup may probe it for __code__ / __wrapped__"""

    def __init__(self, label="v"):
        self._label = label

    def __call__(self, *a):
        note("__call__", "", self._label)
        return None

    def __getattr__(self, name):
        note("__getattr__", name, self.__dict__.get("_label"))
        raise AttributeError(name)


class TList(list):
    def __iter__(self):
        note("__iter__", "", "TList")
        return super().__iter__()

    def __len__(self):
        note("__len__", "", "TList")
        return super().__len__()

    def __getitem__(self, i):
        note("__getitem__", "", "TList")
        return super().__getitem__(i)

    def __contains__(self, x):
        note("__contains__", "", "TList")
        return super().__contains__(x)


class DrainList(list):
    """iterating it consumes it: any iteration by the tracer changes what the program sees"""

    def __iter__(self):
        note("__iter__", "", "DrainList")
        items = list.copy(self)
        list.clear(self)
        return iter(items)


class TDict(dict):
    def keys(self):
        note("keys", "", "TDict")
        return super().keys()

    def items(self):
        note("items", "", "TDict")
        return super().items()

    def values(self):
        note("values", "", "TDict")
        return super().values()

    def __iter__(self):
        note("__iter__", "", "TDict")
        return super().__iter__()

    def __len__(self):
        note("__len__", "", "TDict")
        return super().__len__()

    def __contains__(self, k):
        note("__contains__", "", "TDict")
        return super().__contains__(k)

    def __getitem__(self, k):
        note("__getitem__", "", "TDict")
        return super().__getitem__(k)


class TSet(set):
    def __iter__(self):
        note("__iter__", "", "TSet")
        return super().__iter__()

    def __len__(self):
        note("__len__", "", "TSet")
        return super().__len__()

    def __contains__(self, k):
        note("__contains__", "", "TSet")
        return super().__contains__(k)


class TTuple(tuple):
    def __iter__(self):
        note("__iter__", "", "TTuple")
        return super().__iter__()

    def __len__(self):
        note("__len__", "", "TTuple")
        return super().__len__()


class TDefaultDict(__import__("collections").defaultdict):
    def keys(self):
        note("keys", "", "TDefaultDict")
        return super().keys()

    def values(self):
        note("values", "", "TDefaultDict")
        return super().values()

    def __iter__(self):
        note("__iter__", "", "TDefaultDict")
        return super().__iter__()


class Meta(type):
    def __instancecheck__(cls, o):
        note("__instancecheck__", "", cls.__name__)
        return False

    def __subclasscheck__(cls, o):
        note("__subclasscheck__", "", cls.__name__)
        return False


class MetaHash(type):
    def __hash__(cls):
        note("meta __hash__", "", cls.__name__)
        return 7

    def __eq__(cls, o):
        note("meta __eq__", "", cls.__name__)
        return cls is o


class M1(metaclass=Meta):
    pass


class H1(metaclass=MetaHash):
    pass


class H2(metaclass=MetaHash):
    pass


class Ctor:
    """constructing it is observable: the tracer must never instantiate (or call) what it finds in a value"""
    made = 0

    def __new__(cls, *a):
        note("__new__", "", "Ctor")
        return super().__new__(cls)

    def __init__(self, *a):
        note("__init__", "", "Ctor")
        Ctor.made += 1


def journaling_factory():
    note("factory call", "", "journaling_factory")
    return 0


class JIter:
    """an iterator whose every step is observable (and consumes it)"""

    def __init__(self, label="v"):
        self._label = label
        self.left = 3

    def __iter__(self):
        note("__iter__", "", self._label)
        return self

    def __next__(self):
        note("__next__", "", self._label)
        if self.left <= 0:
            raise StopIteration
        self.left -= 1
        return self.left


_dd = __import__("collections").defaultdict
CATALOGUE = {
    "FactoryDD": lambda: _dd(Ctor), "FactoryDD1": lambda: _dd(Ctor, {"a": 1}), "FactoryFn": lambda: _dd(journaling_factory),
    "CtorCls": lambda: Ctor, "JIter": lambda: JIter("v"),
    "GenHook": lambda: GenHook("v"), "GenHookSub": lambda: GenHook[int]("v"), "GenLazy": lambda: GenLazy("v"),
    "Hookable": lambda: Hookable("v"), "GetAttr": lambda: GetAttr("v"), "ClassProp": lambda: ClassProp("v"),
    "WithDesc": lambda: WithDesc("v"), "Proto": lambda: Proto("v"), "CallableObj": lambda: CallableObj("v"),
    "TList": lambda: TList([1, 2]), "DrainList": lambda: DrainList([1, 2, 3]), "TDict": lambda: TDict(a=1), "TSet": lambda: TSet({1}),
    "TTuple": lambda: TTuple((1, 2)), "TDefaultDict": lambda: TDefaultDict(list, a=[1]),
    "M1": lambda: M1(), "M1cls": lambda: M1, "H1": lambda: H1(), "H2": lambda: H2(), "H1cls": lambda: H1,
}
HASHABLE = {"GenHook", "GenHookSub", "GenLazy", "CtorCls", "JIter", "Hookable", "GetAttr", "ClassProp", "WithDesc", "Proto", "CallableObj", "TTuple", "M1", "M1cls", "H1", "H2", "H1cls"}
