class Qux:
    pass
