"""a user module whose name merely starts with `typing`"""


class TU:
    pass
