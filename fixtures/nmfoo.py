"""module whose name is a textual suffix of barnmfoo"""


class Baz:
    pass


import typing as _t

_T = _t.TypeVar("_T")


class Box(_t.Generic[_T]):
    """a user-defined generic class (reaches the renderer from a kept source annotation: `Box[None]`, `Box[Baz]`)"""
