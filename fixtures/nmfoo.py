"""module whose name is a textual suffix of barnmfoo"""


class Baz:
    pass
