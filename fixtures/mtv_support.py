"""Untraced support module for generated programs: ground-truth recorder, awaitable that really suspends,
a functools.wraps decorator, fixture classes. Generated modules refer to `S.R` dynamically (swapped per run)."""
import functools
import inspect


from fxh import Base, D1, D2  # noqa: E402  (one definition only: a second `Base` in another module would collide in stubs)


class BadExit(Exception):
    pass


class Thrown(Exception):
    pass


class Suspend:
    """awaitable whose __await__ really yields to the driver"""

    def __init__(self, v):
        self.v = v

    def __await__(self):
        yield self.v
        return self.v


def relay(values):
    """an untraced sub-generator: a traced generator that delegates to it with `yield from` yields these values itself"""
    for v in values:
        yield v
    return len(values)


def mutate(v):
    """change a container IN PLACE so that its type changes: alternately WITHOUT changing its length (an element / a value
    replaced by one of another type) and with a new length (new element, emptied dict, new key type)"""
    R.mutations += 1  # per-run counter of the recorder in charge: a case is a pure function of its spec
    t = type(v)
    same_length = R.mutations % 2 == 0
    if t is list:
        if v and same_length:
            v[0] = b"m"
        else:
            v.append(b"m")
    elif t is dict:
        if v and same_length:
            v[next(iter(v))] = b"m"
        elif v:
            v.clear()
        else:
            v[2.5] = b"m"
    elif t is set:
        if v and same_length:
            v.pop()
        v.add(b"m")
    return v


def deco(f):
    @functools.wraps(f)
    def wrapper(*a, **k):
        return f(*a, **k)

    return wrapper


class FuncInfo:
    """what the harness keeps of a function object: its code, names - NOT the object (a closure instance the program has
    dropped must be free to die, as it would without a harness)"""

    def __init__(self, fn):
        self.__code__ = getattr(fn, "__code__", None)
        self.__qualname__ = getattr(fn, "__qualname__", repr(fn))
        self.__name__ = getattr(fn, "__name__", "?")
        self.__module__ = getattr(fn, "__module__", None)

    def __repr__(self):
        return f"<function {self.__module__}.{self.__qualname__}>"


class Rec:
    """Ground truth recorded at call sites. typer(value) snapshots 'the type of this value' immediately
    (None = keep nothing but the outcome, used where the recorder must not inspect values)."""

    def __init__(self, typer=None):
        self.typer = typer
        self.calls = {}
        self.stack = []
        self.logs = []  # (innermost open cid or None, trace)
        self.completed = []  # cids in order of completion
        self.n = 0
        self.fuel_left = 0
        self.journal = []
        self.mutations = 0
        self.kept = []  # closures handed out by their defining functions, to be called later by the driver

    def _t(self, v):
        return self.typer(v) if self.typer else None

    def pre(self, fn, args, kwargs, kind="call"):
        self.n += 1
        cid = self.n
        named = {}
        variadic = {}
        try:
            sig = inspect.signature(fn, follow_wrapped=False)
            ba = sig.bind(*args, **kwargs)
            ba.apply_defaults()
            for name, p in sig.parameters.items():
                if p.kind in (p.VAR_POSITIONAL, p.VAR_KEYWORD):
                    variadic[name] = self._t(ba.arguments[name])
                else:
                    named[name] = self._t(ba.arguments[name])
            bad = None
        except TypeError as e:  # the call itself will raise TypeError before a frame exists
            bad = e
        self.calls[cid] = dict(fn=FuncInfo(fn), args=named, variadic=variadic, kind=kind, state="open", yields=[], awaits=0, ret=None,
                               outcome=None, resumes=0, bad_call=bad, locals_at_resume=[], killed_at_yield=False)
        if kind == "call":
            self.stack.append(cid)
        return cid

    def keep(self, fn):
        """every other closure handed out by its definer is kept (to be called later by the driver); the others die with their
        defining call, like closures nobody stored"""
        self.keep_n = getattr(self, "keep_n", 0) + 1
        if self.keep_n % 2 == 0:
            self.kept.append(fn)

    def post(self, cid, value):
        c = self.calls[cid]
        c["outcome"] = "return"
        c["ret"] = self._t(value)
        c["state"] = "done"
        assert self.stack.pop() == cid
        self.completed.append(cid)

    def exc(self, cid, e):
        c = self.calls[cid]
        c["outcome"] = "raise"
        c["state"] = "done"
        c["exc"] = type(e).__name__
        assert self.stack.pop() == cid
        self.completed.append(cid)

    def fuel(self):
        if self.fuel_left > 0:
            self.fuel_left -= 1
            return True
        return False

    # ---- generators / coroutines: one window per resumption ----
    def step(self, cid, g, op="next"):
        """advance generator/coroutine g once; returns (status, value)"""
        c = self.calls[cid]
        if c["state"] not in ("open", "suspended"):
            return ("dead", None)
        started = c["resumes"] > 0
        if op in ("close", "throw") and not started:
            g.close()
            c["state"] = "never-started"
            return ("never-started", None)
        self.stack.append(cid)
        c["resumes"] += 1
        fr = getattr(g, "gi_frame", None) or getattr(g, "cr_frame", None)
        try:
            if op == "next":
                v = g.send(None)
            elif op == "close":
                g.close()
                raise GeneratorExit()
            else:
                v = g.throw(Thrown("t"))
        except StopIteration as s:
            c["outcome"] = "return"
            c["ret"] = self._t(s.value)
            c["state"] = "done"
            assert self.stack.pop() == cid
            self.completed.append(cid)
            return ("finished", s.value)
        except BaseException as e:
            c["outcome"] = "raise"
            c["state"] = "done"
            c["exc"] = type(e).__name__
            c["killed_at_yield"] = op in ("close", "throw")
            assert self.stack.pop() == cid
            self.completed.append(cid)
            return ("raised", e)
        if c["kind"] == "coro":
            c["awaits"] += 1
        else:
            c["yields"].append(self._t(v))
        if op == "throw":
            c["resumed_by_throw"] = True
        c["state"] = "suspended"
        assert self.stack.pop() == cid
        return ("suspended", v)

    def drop(self, cid, holder):
        """drop the last reference to a suspended generator/coroutine inside a window: the interpreter closes it
        (GeneratorExit at its suspension point) when it is deallocated"""
        import gc
        c = self.calls[cid]
        if c["state"] != "suspended":
            holder.clear()
            if c["state"] == "open":
                c["state"] = "never-started"
            return
        self.stack.append(cid)
        try:
            holder.clear()
            gc.collect()
        finally:
            c["outcome"] = "raise"
            c["state"] = "done"
            c["exc"] = "GeneratorExit"
            c["killed_at_yield"] = True
            assert self.stack.pop() == cid
            self.completed.append(cid)

    def note_locals(self, cid, names_to_values):
        """types of the parameters' current bindings at a resumption point (for the sampling finding matcher)"""
        self.calls[cid]["locals_at_resume"].append({n: self._t(v) for n, v in names_to_values.items()})


R = Rec()
