"""module whose name ends in `typing`"""


class Lst:
    pass


class HasNoneTypeInName:
    pass


class EllipsisMark:
    """a class whose name contains `Ellipsis`"""

    class Ellipsis:  # noqa: A003
        pass
