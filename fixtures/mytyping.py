"""module whose name ends in `typing`"""


class Lst:
    pass


class HasNoneTypeInName:
    pass
