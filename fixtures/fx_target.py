"""Identity-like traced functions for end-to-end checks. Parameter names are unique across the module so that
generated TypedDict class names (derived from parameter names) do not collide between functions."""


def ident(p_ident):
    return p_ident


def second(p_first, p_second=None):
    return p_second


def boxed(p_boxed):
    return [p_boxed]


def gen(p_gen1, p_gen2):
    yield p_gen1
    yield p_gen2


def gen_ret(p_genret):
    yield p_genret
    return p_genret


def pair(p_pair1, p_pair2):
    return None


def geny(p_geny):
    yield p_geny or "value-dependent"


def gen_span(p_span):
    """started in one tracing session, finished in the next"""
    yield [p_span]
    yield {"w": 1, "x": "s", "y": 2.0, "z": None, "v": b""}
    return [p_span]


def emptied(p_emptied):
    """hands back the very dict it was given, emptied in place"""
    if type(p_emptied) is dict:
        p_emptied.clear()
    return p_emptied


def rekeyed(p_rekeyed):
    """hands back the very dict it was given, re-keyed in place to integer keys"""
    if type(p_rekeyed) is dict:
        items = list(p_rekeyed.items())
        p_rekeyed.clear()
        for i, (_, v) in enumerate(items):
            p_rekeyed[i] = v
    return p_rekeyed


def gen_emptied(p_genemptied):
    if type(p_genemptied) is dict:
        p_genemptied.clear()
    yield p_genemptied


class C:
    def m(self, p_m):
        return p_m

    @classmethod
    def cm(cls, p_cm):
        return p_cm

    @staticmethod
    def sm(p_sm):
        return p_sm
