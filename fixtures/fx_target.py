"""Identity-like traced functions for end-to-end checks. Parameter names are unique across the module so that
generated TypedDict class names (derived from parameter names) do not collide between functions."""


def ident(p_ident):
    return p_ident


def second(p_first, p_second=None):
    return p_second


def boxed(p_boxed):
    return [p_boxed]


def gen(p_gen1, p_gen2):
    yield p_gen1
    yield p_gen2


def gen_ret(p_genret):
    yield p_genret
    return p_genret


def pair(p_pair1, p_pair2):
    return None


def geny(p_geny):
    yield p_geny or "value-dependent"


class C:
    def m(self, p_m):
        return p_m

    @classmethod
    def cm(cls, p_cm):
        return p_cm

    @staticmethod
    def sm(p_sm):
        return p_sm
