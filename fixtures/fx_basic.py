"""Fixture package: one function of every kind MonkeyType can trace and decode."""
import functools


def deco(f):
    @functools.wraps(f)
    def wrapper(*a, **k):
        return f(*a, **k)

    return wrapper


def deco2(f):
    @functools.wraps(f)
    def wrapper2(*a, **k):
        return f(*a, **k)

    return wrapper2


def plain(a, b=None):
    return a


def kwonly(a, *, b, c=3):
    return b


def posonly(a, b, /, c, *args, d=None, **kwargs):
    return c


def gen(a, b=1):
    yield a
    yield b
    return a


def gen_none(a):
    yield a


async def coro(a):
    return a


@deco
def wrapped(a, b=2):
    return b


@deco2
@deco
def wrapped_twice(a):
    return a


class readonly(property):  # noqa: N801
    pass


class K:
    def method(self, a, b=None):
        return a

    @classmethod
    def cmeth(cls, a):
        return a

    @staticmethod
    def smeth(a, b=0):
        return a

    @property
    def prop(self):
        return 1

    @readonly
    def ro_prop(self):
        """a getter under a SUBCLASS of property (abc.abstractproperty, a project's own `readonly`)"""
        return 1

    @deco
    def wrapped_method(self, a):
        return a

    def gen_method(self, a):
        yield a

    @classmethod
    @deco
    def deco_cmeth(cls, a):
        return a

    @staticmethod
    @deco
    def deco_smeth(a):
        return a

    async def coro_method(self, a):
        return a

    class Inner:
        def inner_method(self, a):
            return a

        @classmethod
        def inner_cmeth(cls, a):
            return a

        class Deep:
            def deep_method(self, a):
                return a


class Sub(K):
    def method(self, a, b=None):
        return super().method(a, b)

    def own(self, x):
        return x


def _fget(o):
    return getattr(o, "fget", None) or o


import inspect as _inspect
import typing as _typing


class Movie(_typing.TypedDict):
    """a PEP 589 TypedDict class written by the user (not one MonkeyType generated)"""
    title: str
    year: int


def checked(f):
    """a signature-preserving decorator: functools.wraps AND an explicit __signature__"""
    import functools

    @functools.wraps(f)
    def wrapper(*a, **k):
        return f(*a, **k)

    wrapper.__signature__ = _inspect.signature(f)
    return wrapper


@checked
def sigwrapped(a, b=None):
    return a


@deco
@checked
def sigwrapped_twice(a):
    return a


import functools as _functools


@_functools.lru_cache(maxsize=None)
def cached(a, b=None):
    """the module attribute is a C-implemented wrapper object (not a function) that carries __wrapped__"""
    return a


class counting:  # noqa: N801
    """a class-based decorator: its instances are callable objects, made to look like the function with update_wrapper"""
    def __init__(self, f):
        self.f = f
        self.calls = 0
        _functools.update_wrapper(self, f)

    def __call__(self, *a, **k):
        self.calls += 1
        return self.f(*a, **k)


@counting
def counted(a, b=None):
    return a


def lookup(module, qualname, attr=None):
    """parameters named like the keys of an encoded type"""
    return module


FUNCS = {
    "sigwrapped": sigwrapped.__wrapped__, "sigwrapped_twice": sigwrapped_twice.__wrapped__.__wrapped__,
    "lookup": lookup, "cached": cached.__wrapped__, "counted": counted.__wrapped__,
    "plain": plain, "kwonly": kwonly, "posonly": posonly, "gen": gen, "gen_none": gen_none, "coro": coro,
    "wrapped": wrapped.__wrapped__, "wrapped_twice": wrapped_twice.__wrapped__.__wrapped__,
    "K.method": K.method, "K.cmeth": K.cmeth.__func__, "K.smeth": K.smeth, "K.prop": K.__dict__["prop"].fget, "K.ro_prop": K.__dict__["ro_prop"].fget,
    "K.wrapped_method": K.wrapped_method.__wrapped__,
    "K.deco_cmeth": K.deco_cmeth.__func__.__wrapped__, "K.deco_smeth": K.deco_smeth.__wrapped__, "K.gen_method": K.gen_method, "K.coro_method": K.coro_method,
    "K.Inner.inner_method": K.Inner.inner_method, "K.Inner.inner_cmeth": K.Inner.inner_cmeth.__func__,
    "K.Inner.Deep.deep_method": K.Inner.Deep.deep_method, "Sub.method": Sub.method, "Sub.own": Sub.own,
}


# user classes named like the builtin types that are not exported by `builtins` under that name (py2-style sentinels)
class NoneType:
    pass


class mappingproxy:  # noqa: N801
    pass


class NotImplementedType:
    pass
