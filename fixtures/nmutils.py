"""module whose name is a dotted suffix of nmpkg.nmutils"""


class A:
    pass


class nmutils:
    """a class named like its module"""


class Outer:
    class Nested:
        class Deeper:
            pass
