class B:
    pass


class Outer2:
    class Nested2:
        pass
