"""Configurations for end-to-end checks, selected through environment variables so that the CLI can import
them by name (`-c fx_cfg:CONFIG`):  MTV_DB (sqlite path), MTV_K (max_typed_dict_size), MTV_RW (rewriter name),
MTV_RATE (sample rate)."""
import os

import monkeytype.typing as mt
from monkeytype.config import DefaultConfig
from monkeytype.db.sqlite import SQLiteStore

REWRITERS = {
    "noop": lambda: mt.NoOpRewriter(),
    "default": lambda: mt.DEFAULT_REWRITER,
    "rec": lambda: mt.RemoveEmptyContainers(),
    "cd": lambda: mt.RewriteConfigDict(),
    "lu": lambda: mt.RewriteLargeUnion(),
    "lu2": lambda: mt.RewriteLargeUnion(2),
    "mscb": lambda: mt.RewriteMostSpecificCommonBase(),
    "gen": lambda: mt.RewriteGenerator(),
}


class EnvConfig(DefaultConfig):
    """DefaultConfig with only the TypedDict size, the rewriter and the database path overridden."""

    def trace_store(self):
        return SQLiteStore.make_store(os.environ["MTV_DB"])

    def max_typed_dict_size(self):
        return int(os.environ.get("MTV_K", "0"))

    def type_rewriter(self):
        return REWRITERS[os.environ.get("MTV_RW", "default")]()

    def code_filter(self):
        """MTV_ONLY=<file>: the default filter, further restricted to that file's functions (cost control for the
        harness; the unmodified DefaultConfig is exercised separately)"""
        only = os.environ.get("MTV_ONLY")
        base = super().code_filter()
        if not only:
            return base
        return lambda code: code.co_filename == only and not code.co_name.startswith("_mtv_") and base(code)

    def sample_rate(self):
        r = os.environ.get("MTV_RATE")
        return int(r) if r else None


CONFIG = EnvConfig()
