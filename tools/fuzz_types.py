#!/venv/bin/python
"""Optional coverage-guided engine (atheris/libFuzzer) over the type-level oracles of C04, C05, C07 and C08.

usage: PYTHONPATH=/repo:/verif:/verif/fixtures:/verif/.deps tools/fuzz_types.py <C04|C05|C07|C08> [libFuzzer args, e.g. -runs=20000 -seed=1]

libFuzzer mutates a byte buffer; Hypothesis (`fuzz_one_input`) decodes it into a shape-profiled multiset of grammar values
(+ k), and the property's own oracle runs inside the target. A listed finding is counted and skipped in-target; an unlisted
violation prints `FUZZ-VIOLATION <signature> <spec>` and aborts the campaign (libFuzzer saves the input)."""
import json
import os
import sys

HERE = os.path.dirname(os.path.dirname(os.path.abspath(__file__)))
sys.path[:0] = [HERE, os.path.join(HERE, "fixtures"), os.path.join(HERE, ".deps")]
pid = sys.argv[1].upper()
argv = [sys.argv[0]] + sys.argv[2:]

import atheris  # noqa: E402

with atheris.instrument_imports(include=["monkeytype"]):
    import monkeytype.typing  # noqa: F401
    import monkeytype.encoding  # noqa: F401

import random  # noqa: E402

from hypothesis import given, settings, strategies as st, HealthCheck  # noqa: E402

from mtverif import core, tinfer, vals  # noqa: E402

ctx = core.Ctx(pid, "thorough", 0)
count = [0]

if pid in ("C04", "C05"):
    mod = __import__("mtverif." + pid.lower(), fromlist=["x"])

    def run_case(c):
        (specs, k), rnd, dups = c
        mod.oracle(ctx, specs, k, rnd, dups)
    strat = tinfer.case_strategy()
elif pid == "C07":
    from mtverif import c07

    def run_case(c):
        specs, kd, pair = c
        c07.do_values(ctx, specs, vals.k_for(specs, kd), pair)
    strat = st.tuples(vals.shaped_multiset(), st.integers(0, 1000), c07.pairs)
elif pid == "C08":
    from mtverif import c08

    def run_case(c):
        specs, kd, rs, mode = c
        c08.do_values(ctx, specs, vals.k_for(specs, kd), random.Random(rs), mode)
    strat = st.tuples(vals.shaped_multiset(), st.integers(0, 1000), st.integers(0, 2**32), st.sampled_from(["merge", "yield"]))
else:
    sys.exit("unknown property " + pid)


@settings(database=None, deadline=None, suppress_health_check=list(HealthCheck))
@given(strat)
def test(c):
    count[0] += 1
    try:
        run_case(c)
    except core.Violation as v:
        print("FUZZ-VIOLATION", v.signature, json.dumps(core.jsonable(v.spec))[:4000], flush=True)
        raise


atheris.Setup(argv, test.hypothesis.fuzz_one_input)
atheris.Fuzz()
