#!/bin/bash
# usage: SEED_OUT=out5 tools/intake.sh <PID> <mI> <seed-id> "<needs>" : confirm a sub-agent's change, file it, run the related checks
cd "$(dirname "$0")/.."
tools/seed.py "$1" "$2" "$3" "$4" 2>&1 | tail -1
tools/matrix.py "$3" 2>&1 | head -1 | cut -c1-400
