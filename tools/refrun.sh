#!/bin/bash
# usage: tools/refrun.sh <refactor-id>... : run every quick check against a behaviour-preserving refactoring (scratch worktree); any exit!=0 is a false alarm to triage
cd "$(dirname "$0")/.."
for r in "$@"; do
  echo "== $r"
  tools/mut.py --tests --patch refactors/$r/patch.diff -- C01 C02 C03 C04 C05 C06 C07 C08 C09 C10 C11 C12 C13 C14 C15 C16 C17 C18 2>&1 | cut -c1-400
done
