#!/venv/bin/python
"""Run the relevant checks against every seeded change (scratch worktree, /repo untouched) and record which detect it.
usage: tools/matrix.py [seed-id-glob]"""
import glob, json, os, subprocess, sys, re
HERE = os.path.dirname(os.path.dirname(os.path.abspath(__file__)))
REL = {"C01": ["C01", "C04", "C09", "C02", "C07"], "C02": ["C02", "C04", "C17"], "C03": ["C03"], "C04": ["C04", "C05", "C02"], "C05": ["C05", "C04", "C18", "C02"], "C06": ["C06", "C04"],
       "C07": ["C07"], "C08": ["C08"], "C09": ["C09"], "C10": ["C10"], "C11": ["C11"], "C12": ["C12", "C10"], "C13": ["C13", "C12", "C14", "C04"],
       "C14": ["C14", "C09", "C07", "C10", "C12"], "C15": ["C15", "C12", "C16"], "C16": ["C16"], "C17": ["C17", "C03", "C02"], "C18": ["C18", "C02"]}
pat = sys.argv[1] if len(sys.argv) > 1 else "*"
rows = []
for d in sorted(glob.glob(os.path.join(HERE, "seeded", pat))):
    if not os.path.exists(os.path.join(d, "patch.diff")):
        continue
    meta = json.load(open(os.path.join(d, "meta.json")))
    checks = REL[meta["property"]]
    r = subprocess.run([os.path.join(HERE, "tools", "mut.py"), "--patch", os.path.join(d, "patch.diff"), "--"] + checks, capture_output=True, text=True)
    det = {}
    cur = None
    for line in r.stdout.splitlines():
        m = re.match(r"^(C\d+): exit=(\d+)", line)
        if m:
            cur = m.group(1)
            det[cur] = {"exit": int(m.group(2)), "signatures": []}
        m2 = re.search(r"violation signature=(\S+)", line)
        if m2 and cur:
            det[cur]["signatures"].append(m2.group(1))
    meta["detected_by"] = {c: v["signatures"] for c, v in det.items() if v["exit"] == 1}
    meta["not_detected_by"] = [c for c, v in det.items() if v["exit"] == 0]
    meta["harness_errors"] = [c for c, v in det.items() if v["exit"] not in (0, 1)]
    meta["ran"] = "tools/mut.py --patch seeded/%s/patch.diff -- %s (quick tier, VERIF_SEED=1)" % (os.path.basename(d), " ".join(checks))
    json.dump(meta, open(os.path.join(d, "meta.json"), "w"), indent=1)
    rows.append((os.path.basename(d), meta["property"], meta["detected_by"], meta["not_detected_by"], meta["harness_errors"]))
    print(rows[-1], flush=True)
rows = []
for d in sorted(glob.glob(os.path.join(HERE, "seeded", "*"))):
    mp = os.path.join(d, "meta.json")
    if os.path.exists(mp):
        m = json.load(open(mp))
        if m.get("detected_by") is not None:
            rows.append((os.path.basename(d), m["property"], m["detected_by"], m.get("not_detected_by", []), m.get("harness_errors", [])))
with open(os.path.join(HERE, "seeded", "MATRIX.md"), "w") as f:
    f.write("# Seeded changes x checks (quick tier, VERIF_SEED=1)\n\n| seeded change | property | detected by (signatures) | quiet |\n|---|---|---|---|\n")
    for name, prop, det, nd, he in rows:
        f.write(f"| {name} | {prop} | " + "; ".join(f"{c}: {', '.join(s[:3])}" for c, s in det.items()) + f" | {', '.join(nd)}{' HARNESS:' + ','.join(he) if he else ''} |\n")
