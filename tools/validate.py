#!/venv/bin/python
"""Validate MANIFEST.json and every evidence file against the schemas."""
import glob, json, os, sys
import jsonschema
HERE = os.path.dirname(os.path.dirname(os.path.abspath(__file__)))
jsonschema.validate(json.load(open(os.path.join(HERE, "MANIFEST.json"))), json.load(open("/root/.vp/MANIFEST.schema.json")))
sch = json.load(open("/root/.vp/EVIDENCE.schema.json"))
bad = 0
for f in sorted(glob.glob(os.path.join(HERE, "evidence", "*.json"))):
    e = json.load(open(f))
    try:
        jsonschema.validate(e, sch)
        print(os.path.basename(f), "ok", e["tier"], e["level"], "evals", e["coverage"]["evaluations"], "nontrivial", e["coverage"]["distinct_nontrivial"], "wall", e["wall_s"])
    except jsonschema.ValidationError as ex:
        bad += 1
        print(os.path.basename(f), "INVALID", ex.message[:200])
sys.exit(1 if bad else 0)
