"""How the sub-agents that write behaviour-preserving refactorings are briefed (all 18 statements, one file group each)."""
import json, os, subprocess
props = [json.loads(l) for l in open('/verif/properties.jsonl')]
allp = '\n'.join(f"  {p['id']} {p['title']}: {p['statement']}" for p in props)
groups = {
 'tracing': ('monkeytype/tracing.py', 'C02 C03 C17 C18'),
 'typing': ('monkeytype/typing.py (and monkeytype/compat.py if useful)', 'C04 C05 C06 C07'),
 'store': ('monkeytype/encoding.py, monkeytype/db/sqlite.py, monkeytype/db/base.py', 'C08 C09 C10'),
 'stubs': ('monkeytype/stubs.py', 'C11 C12 C13 C14'),
 'apply': ('monkeytype/cli.py, monkeytype/type_checking_imports_transformer.py', 'C10 C15 C16'),
 'config': ('monkeytype/config.py, monkeytype/util.py, monkeytype/__init__.py', 'C17 C06 C01'),
}
for g, (files, rel) in groups.items():
    wt = f'/tmp/seed/wtr-{g}'; out = f'/tmp/seed/ref-{g}'
    os.makedirs(out, exist_ok=True)
    if not os.path.isdir(wt):
        subprocess.check_call(['git', '-C', '/repo', 'worktree', 'add', '--detach', '-q', wt, 'HEAD'])
    txt = f"""You are helping to test a verification effort for the open-source Python tool MonkeyType (records runtime
argument/return types via sys.setprofile, merges and rewrites them, stores them in SQLite, and emits or applies type stubs).
The verification effort has checks that must NOT raise an alarm on code that still satisfies the properties below. Your job
is to produce realistic BEHAVIOUR-PRESERVING refactorings that such checks will later be run against.

You have your own scratch git worktree of the repository at {wt} (detached HEAD, clean). Work ONLY there and in
{out} (your output directory). Do not read or modify /repo or /verif, and do not commit anything.
Python: /venv/bin/python (3.12). Run code against your worktree with `PYTHONPATH={wt} /venv/bin/python ...`. No network.

The semantic properties users rely on (all must STILL HOLD after each of your refactorings):
{allp}

YOUR TASK: write THREE independent refactorings (r1, r2, r3) of: {files}   (most relevant properties: {rel}).
Each must:
 * preserve documented/public behaviour and every property above (in every clause), and keep the public API importable
   under the same names with the same call signatures (classes, functions, methods and attributes that tests, docs or other
   modules use);
 * be as invasive as a real maintainer's clean-up could be, a few dozen to a couple of hundred changed lines: e.g. rename or
   inline or split PRIVATE helpers, replace an internal data structure with another (dict keyed differently, dataclass vs
   tuple, list vs generator), reorder independent steps, add an internal cache that is provably transparent, restructure
   control flow (early returns, match on type objects, table-driven dispatch), rewrite SQL that is equivalent, change wording
   of log/debug messages or things the docs and properties do not fix (e.g. the ORDER of union members, of imports where any
   order is valid Python, JSON key order, names of private attributes, exact exception messages), move code between modules
   while re-exporting the old names;
 * keep the repository's test suite result EXACTLY as on the clean tree: `1 failed, 378 passed, 2 skipped, 1 xpassed`
   (the one pre-existing failure is tests/test_config.py::TestDefaultCodeFilter::test_excludes_site_packages).
   Run: cd {wt} && PYTHONPATH={wt} /venv/bin/python -m pytest -q -p no:cacheprovider
 * differ from each other in what they restructure.
Be careful and honest: if a refactoring turns out to change behaviour that a property fixes, repair or drop it - an
incorrect "refactoring" is useless here. Beyond the test suite, exercise the changed code paths yourself with small
scripts comparing clean vs refactored behaviour on varied inputs (you can use `git stash` or a second checkout via
`git -C {wt} show HEAD:path` to get the original file for differential runs).

Deliverables under {out}, for i in 1..3:
 * r<i>.diff - `git diff` against the clean HEAD (each stands alone, NOT cumulative; reset with
   `git -C {wt} checkout -- . && git -C {wt} clean -fdq` between them); must apply with `git apply` to a clean checkout.
 * r<i>.md   - what was restructured, and a short argument why observable behaviour and each relevant property are unchanged;
   list anything observable that DID change (message wording, ordering) and why no property fixes it.
Finish with the worktree clean. Final message: one paragraph per refactoring plus the test-suite line you observed for each.
"""
    open(f'/tmp/seed/refprompt-{g}.txt', 'w').write(txt)
print('ok')
