#!/venv/bin/python
"""Confirm a sub-agent's seeded change and file it under /verif/seeded/<id>/.

usage: tools/seed.py <PID> <mI> <seed-id> "<needs>"   (reads /tmp/seed/out-<PID>/<mI>.diff, <mI>_demo.py, <mI>.md)
Confirms in a scratch worktree: demo passes on the clean tree, fails with the patch, test-suite result unchanged.
"""
import json, os, shutil, subprocess, sys, tempfile

pid, mi, sid, needs = sys.argv[1:5]
src = os.environ.get("SEED_SRC", "/tmp/seed") + f"/{os.environ.get('SEED_OUT', 'out')}-{pid}"
dst = f"/verif/seeded/{sid}"
d = tempfile.mkdtemp(dir="/tmp/mut" if os.path.isdir("/tmp/mut") else None)
wt = d + "/r"
ran = []
def run(cmd, **kw):
    r = subprocess.run(cmd, capture_output=True, text=True, **kw)
    return r
try:
    subprocess.check_call(["git", "-C", "/repo", "worktree", "add", "--detach", "-q", wt, "HEAD"])
    env = {**os.environ, "PYTHONPATH": wt}
    r0 = run(["/venv/bin/python", f"{src}/{mi}_demo.py"], env=env, cwd=d)
    ran.append(f"clean tree: demo exit={r0.returncode}")
    ap = run(["git", "-C", wt, "apply", f"{src}/{mi}.diff"])
    rebased = None
    if ap.returncode:
        # written against an older HEAD (a fix: commit touched the same file since): 3-way merge, keep the re-based diff
        ap = run(["git", "-C", wt, "apply", "--3way", f"{src}/{mi}.diff"])
        if ap.returncode or "<<<<<<<" in "".join(open(os.path.join(r, f)).read() for r, _, fs in os.walk(wt + "/monkeytype") for f in fs if f.endswith(".py")):
            print("APPLY FAILED", ap.stderr); sys.exit(1)
        run(["git", "-C", wt, "reset", "-q"])
        rebased = run(["git", "-C", wt, "diff", "HEAD"]).stdout
        ran.append("patch re-based (3-way) onto the current HEAD")
    r1 = run(["/venv/bin/python", f"{src}/{mi}_demo.py"], env=env, cwd=d)
    ran.append(f"patched tree: demo exit={r1.returncode}")
    t = run(["/venv/bin/python", "-m", "pytest", "-q", "-p", "no:cacheprovider"], env=env, cwd=wt)
    summ = [l for l in t.stdout.splitlines() if " passed" in l][-1:]
    fails = sorted(l.split()[1] for l in t.stdout.splitlines() if l.startswith("FAILED"))
    ran.append(f"patched tree: pytest {summ} failed={fails}")
    ok = r0.returncode == 0 and r1.returncode == 1 and fails == ["tests/test_config.py::TestDefaultCodeFilter::test_excludes_site_packages"] and summ and "378 passed" in summ[0]
    print("\n".join(ran)); print("CONFIRMED" if ok else "NOT CONFIRMED")
    if not ok:
        print(r0.stdout[-500:], r1.stdout[-500:]); sys.exit(1)
    os.makedirs(dst, exist_ok=True)
    if rebased:
        open(f"{dst}/patch.diff", "w").write(rebased)
    else:
        shutil.copy(f"{src}/{mi}.diff", f"{dst}/patch.diff")
    shutil.copy(f"{src}/{mi}_demo.py", f"{dst}/demo.py")
    if os.path.exists(f"{src}/{mi}.md"): shutil.copy(f"{src}/{mi}.md", f"{dst}/notes.md")
    base = subprocess.check_output(["git", "-C", "/repo", "rev-parse", "--short", "HEAD"], text=True).strip()
    json.dump({"id": sid, "property": pid, "needs_to_manifest": needs, "base_commit": base,
               "confirmed": ran, "origin": "independent sub-agent given only the property text and a scratch worktree",
               "detected_by": None}, open(f"{dst}/meta.json", "w"), indent=1)
finally:
    subprocess.run(["git", "-C", "/repo", "worktree", "remove", "--force", wt], capture_output=True)
    shutil.rmtree(d, ignore_errors=True)
    subprocess.run(["git", "-C", "/repo", "worktree", "prune"])
