NOTES = ("All checks: ./check <ID> [--tier quick|thorough] [--replay file]; Hypothesis seeded from VERIF_SEED; "
         "known findings in known_findings.json; genuine defects repaired by 'fix:' commits in /repo are listed there as fixed.")
NOT_APPLICABLE = {}
ENGINES = [
    {"name": "types", "path": "mtverif/tinfer.py, mtverif/oracle.py, mtverif/vals.py", "serves_properties": ["C04", "C05"],
     "kind_free_text": "Hypothesis + exhaustive small-scope enumeration over a value grammar; independent membership/tightness oracles"},
]
chk("C04", "types", "exploration", "property-based testing (Hypothesis) + small-scope enumeration against a reference membership oracle; metamorphic permutation/duplication relation",
    "Generated multisets of grammar values x TypedDict limits: inference terminates, every value is a member of the merged type (reference oracle), and the merged type is invariant under permutation and duplication. Exploration: a for-all over an unbounded input space can only be sampled; the small alphabet is enumerated exhaustively in the thorough tier.",
    "trusts mtverif.oracle.conforms/canon (written from typing semantics, not from MonkeyType code) and CPython's typing module", "DESIGN.md 4/C04")
chk("C05", "types", "exploration", "property-based testing (Hypothesis) + small-scope enumeration against a declarative witness (tightness) oracle",
    "Same generated space as C04; the inferred type is walked in lock-step with the observed values: strict coverage, every union alternative inhabited by a value with its exact head, Any only beside an observed empty container, required/optional keys by counting. Exploration of an unbounded space.",
    "trusts mtverif.oracle.witnessed; reading of 'Any' fixed in DESIGN.md 3.2", "DESIGN.md 4/C05")
