NOTES = ("All checks: ./check <ID> [--tier quick|thorough] [--replay file]; Hypothesis seeded from VERIF_SEED; "
         "known findings in known_findings.json; genuine defects repaired by 'fix:' commits in /repo are listed there as fixed.")
NOT_APPLICABLE = {}
ENGINES = [
    {"name": "types", "path": "mtverif/tinfer.py, mtverif/oracle.py, mtverif/vals.py", "serves_properties": ["C04", "C05"],
     "kind_free_text": "Hypothesis + exhaustive small-scope enumeration over a value grammar; independent membership/tightness oracles"},
]
chk("C04", "types", "exploration", "property-based testing (Hypothesis) + small-scope enumeration against a reference membership oracle; metamorphic permutation/duplication relation",
    "Generated multisets of grammar values x TypedDict limits: inference terminates, every value is a member of the merged type (reference oracle), and the merged type is invariant under permutation and duplication. Exploration: a for-all over an unbounded input space can only be sampled; the small alphabet is enumerated exhaustively in the thorough tier.",
    "trusts mtverif.oracle.conforms/canon (written from typing semantics, not from MonkeyType code) and CPython's typing module", "DESIGN.md 4/C04")
chk("C05", "types", "exploration", "property-based testing (Hypothesis) + small-scope enumeration against a declarative witness (tightness) oracle",
    "Same generated space as C04; the inferred type is walked in lock-step with the observed values: strict coverage, every union alternative inhabited by a value with its exact head, Any only beside an observed empty container, required/optional keys by counting. Exploration of an unbounded space.",
    "trusts mtverif.oracle.witnessed; reading of 'Any' fixed in DESIGN.md 3.2", "DESIGN.md 4/C05")
ENGINES[0]["serves_properties"] = ["C04", "C05", "C06", "C07", "C08"]
ENGINES[0]["path"] = "mtverif/tinfer.py, mtverif/tgram.py, mtverif/oracle.py, mtverif/vals.py"
chk("C06", "types", "exploration", "property-based testing (Hypothesis): structural invariant over every TypedDict node in inferred types, decoded store rows and rendered stub classes",
    "Dict-rich generated values x k: no TypedDict anywhere when k=0 (types, raw stored rows, stub text); with k>0 every TypedDict node / rendered class family has 1..k string keys and empty or non-str-keyed dicts are admitted by a non-TypedDict alternative. Three stages: inference, real trace->SQLite->decode, CLI stub.",
    "stage 2/3 use the real monkeytype.trace, SQLiteStore and cli.main with an env-driven DefaultConfig subclass (fixtures/fx_cfg.py)", "DESIGN.md 4/C06")
chk("C07", "types", "exploration", "property-based testing + exhaustive small-scope enumeration of a type grammar; value-level non-narrowing via characteristic inhabitants, one-directional trigger predicates, reference model for RemoveEmptyContainers, chain = composition",
    "Every shipped rewriter, the default chain and drawn ordered pairs on enumerated, random and inferred types: rewrite returns, every strict inhabitant of the input (and every witness value) is admitted by the result, the type is unchanged when the documented trigger is absent, chains equal sequential composition.",
    "trigger predicates and the RemoveEmptyContainers model are written from the property statement and class docstrings", "DESIGN.md 4/C07")
chk("C08", "types", "exploration", "property-based round-trip testing (encode/decode, CallTraceRow, SQLite file) with a structural-equality oracle; metamorphic stability of the encoding across rebuilds, histories and PYTHONHASHSEED",
    "decode(encode(T)) structurally equals T for inferred / yield-accumulated / rewritten / grammar types; re-encoding and independent rebuilds give the same text up to union order; flat class unions encode identically in a fresh interpreter; call traces of 22 fixture functions of every kind round-trip through CallTraceRow and a SQLite file with absent kept distinct from NoneType.",
    "unions are compared as sets; Tuple[T, ...] is excluded (DESIGN 3.5)", "DESIGN.md 4/C08")
ENGINES.append({"name": "tracer", "path": "mtverif/synth.py, mtverif/tracerun.py, fixtures/mtv_support.py", "serves_properties": ["C02", "C03", "C17", "C18"],
                "kind_free_text": "Hypothesis-drawn program specs rendered to modules with inline recorded call sites, executed by a drawn driver schedule under the real sys.setprofile tracer; ground truth from an untraced recorder"})
chk("C02", "tracer", "exploration", "property-based testing (Hypothesis) over synthesised programs and driver schedules; oracle = ground truth recorded at call sites with innermost-window attribution, plus gc reachability walk for residue",
    "Programs of every function/parameter/flavour/exit kind run under the real tracer with interleaved generators and really-suspending coroutines: each finished call logged exactly once (MUST kinds), to the right function, with the types bound at call start, return absent iff exception, yields = union of yielded values, none for awaits, in completion order, and no CallTrace/frame left reachable from the tracer.",
    "single thread; MAY-resolvable kinds (lambda, settable property, static method of nested class) may go unlogged; two listed findings (generator ended by exception at its yield point)", "DESIGN.md 4/C02")
chk("C18", "tracer", "exploration", "property-based testing over programs x sampling rates x RNG seeds with the C02 ground-truth oracle per logged trace; exact binomial acceptance test for the traced fraction",
    "With sample_rate None/1 the full C02 oracle; otherwise every logged trace is faithful to a real call, at most one per call, unsampled calls leave no residue; the traced fraction of 40k (quick) / 200k (thorough) plain calls lies in an exact binomial interval for p=1/N.",
    "global `random` seeded from a drawn integer; the mid-life generator trace is a listed finding with a structural matcher", "DESIGN.md 4/C18")
chk("C03", "tracer", "exploration", "differential testing (identical workload untraced vs traced: results, exceptions, stdout, hook journal) over an exhaustive tripwire x role table, exhaustive single/double fault injection, and Hypothesis-generated programs with tripwire arguments",
    "17 tripwire kinds x 15 roles x k in {0,3} exhaustively plus generated programs: traced and untraced runs agree on results, exceptions, output and on the journal of user hooks; every single/double logger fault, flush fault and inspection-fault object x exit by return/exception x pre-installed profiler is contained, the profiler is restored, flush runs once and later calls are still traced.",
    "in-process comparison; two listed findings (function lookup probing program objects, metaclass __hash__/__eq__ via typing)", "DESIGN.md 4/C03")
