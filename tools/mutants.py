#!/venv/bin/python
"""Systematic sensitivity sweep: AST-located operator mutants of monkeytype/*.py; a mutant that still passes the repo's
test suite is run against the quick tier of the checks that own the mutated file. Output: JSON lines, one per mutant.

usage: tools/mutants.py OUT.jsonl [file ...]   (env MUT_SAMPLE=N to sample N mutants per file, MUT_SEED)"""
import ast, json, os, random, shutil, subprocess, sys, tempfile

HERE = os.path.dirname(os.path.dirname(os.path.abspath(__file__)))
OWNERS = {  # file -> checks that own its behaviour

    "monkeytype/typing.py": ["C04", "C05", "C06", "C07"], "monkeytype/tracing.py": ["C02", "C03", "C18"],
    "monkeytype/encoding.py": ["C08", "C09"], "monkeytype/db/sqlite.py": ["C09"], "monkeytype/db/base.py": ["C17", "C01"],
    "monkeytype/stubs.py": ["C11", "C12", "C13", "C14"], "monkeytype/cli.py": ["C10", "C15", "C16", "C01"],
    "monkeytype/config.py": ["C17", "C06", "C01"], "monkeytype/type_checking_imports_transformer.py": ["C16", "C15"],
    "monkeytype/util.py": ["C08", "C10"], "monkeytype/compat.py": ["C04", "C08", "C11"],
}
CMP = {ast.Eq: "!=", ast.NotEq: "==", ast.Lt: "<=", ast.LtE: "<", ast.Gt: ">=", ast.GtE: ">", ast.Is: "is not", ast.IsNot: "is", ast.In: "not in", ast.NotIn: "in"}
SRC = {ast.Eq: "==", ast.NotEq: "!=", ast.Lt: "<", ast.LtE: "<=", ast.Gt: ">", ast.GtE: ">=", ast.Is: "is", ast.IsNot: "is not", ast.In: "in", ast.NotIn: "not in"}


def mutants_of(path, text):
    tree = ast.parse(text)
    lines = text.splitlines(keepends=True)
    off = [0]
    for l in lines:
        off.append(off[-1] + len(l))

    def pos(lineno, col):
        return off[lineno - 1] + len(lines[lineno - 1].encode()[:col].decode())

    out = []
    for n in ast.walk(tree):
        if isinstance(n, ast.Compare) and len(n.ops) == 1 and type(n.ops[0]) in CMP:
            a, b = pos(n.left.end_lineno, n.left.end_col_offset), pos(n.comparators[0].lineno, n.comparators[0].col_offset)
            mid = text[a:b]
            op = SRC[type(n.ops[0])]
            if op in mid:
                out.append((a, b, mid.replace(op, CMP[type(n.ops[0])], 1), f"L{n.lineno} {op} -> {CMP[type(n.ops[0])]}"))
        elif isinstance(n, ast.BoolOp) and len(n.values) == 2:
            a, b = pos(n.values[0].end_lineno, n.values[0].end_col_offset), pos(n.values[1].lineno, n.values[1].col_offset)
            mid = text[a:b]
            w, r = ("and", "or") if isinstance(n.op, ast.And) else ("or", "and")
            if f" {w} " in mid or f"\n{w} " in mid or mid.strip() == w:
                out.append((a, b, mid.replace(w, r, 1), f"L{n.lineno} {w} -> {r}"))
        elif isinstance(n, ast.UnaryOp) and isinstance(n.op, ast.Not):
            a, b = pos(n.lineno, n.col_offset), pos(n.operand.lineno, n.operand.col_offset)
            if text[a:b].strip() == "not":
                out.append((a, b, "", f"L{n.lineno} drop not"))
        elif isinstance(n, ast.Constant) and isinstance(n.value, int) and not isinstance(n.value, bool) and 0 <= n.value <= 10:
            a, b = pos(n.lineno, n.col_offset), pos(n.end_lineno, n.end_col_offset)
            if text[a:b] == str(n.value):
                out.append((a, b, str(n.value + 1), f"L{n.lineno} {n.value} -> {n.value + 1}"))
        elif isinstance(n, ast.If) and not isinstance(n.test, ast.Constant):
            a, b = pos(n.test.lineno, n.test.col_offset), pos(n.test.end_lineno, n.test.end_col_offset)
            out.append((a, b, "(" + text[a:b] + ") and False", f"L{n.lineno} if -> never"))
    return out


def main():
    outp = sys.argv[1]
    files = sys.argv[2:] or sorted(OWNERS)
    rnd = random.Random(int(os.environ.get("MUT_SEED", "1")))
    sample = int(os.environ.get("MUT_SAMPLE", "0"))
    os.makedirs("/tmp/mut", exist_ok=True)
    d = tempfile.mkdtemp(dir="/tmp/mut")
    wt = d + "/r"
    subprocess.check_call(["git", "-C", "/repo", "worktree", "add", "--detach", "-q", wt, "HEAD"])
    env = {**os.environ, "PYTHONPATH": wt}
    done = set()
    if os.path.exists(outp):
        for l in open(outp):
            r = json.loads(l)
            done.add((r["file"], r["mutation"]))
    try:
        for f in files:
            text = open(os.path.join(wt, f)).read()
            ms = mutants_of(f, text)
            if sample and len(ms) > sample:
                ms = rnd.sample(ms, sample)
            for a, b, repl, desc in ms:
                if (f, desc) in done:
                    continue
                open(os.path.join(wt, f), "w").write(text[:a] + repl + text[b:])
                rec = {"file": f, "mutation": desc}
                try:
                    c = subprocess.run(["/venv/bin/python", "-c", "import monkeytype.cli"], env=env, cwd=wt, capture_output=True, text=True, timeout=60)
                    if c.returncode:
                        rec["status"] = "does-not-import"
                    else:
                        t = subprocess.run(["/venv/bin/python", "-m", "pytest", "-q", "-x", "-p", "no:cacheprovider", "--deselect",
                                            "tests/test_config.py::TestDefaultCodeFilter::test_excludes_site_packages"], env=env, cwd=wt, capture_output=True, text=True, timeout=600)
                        if t.returncode != 0:
                            rec["status"] = "killed-by-test-suite"
                        else:
                            rec["status"] = "survives-tests"
                            rec["checks"] = {}
                            for chk in OWNERS[f]:
                                r = subprocess.run([os.path.join(HERE, "check"), chk], env={**os.environ, "VERIF_REPO_ROOT": wt, "VERIF_SHARDS": os.environ.get("VERIF_SHARDS", "4")},
                                                   capture_output=True, text=True, timeout=1800)
                                sigs = [l.split("signature=")[1].split(" ")[0] for l in r.stdout.splitlines() if "violation signature=" in l]
                                rec["checks"][chk] = {"exit": r.returncode, "signatures": sigs[:4]}
                                if r.returncode == 1:
                                    break
                            rec["detected"] = any(v["exit"] == 1 for v in rec["checks"].values())
                except subprocess.TimeoutExpired:
                    rec["status"] = "timeout"
                finally:
                    open(os.path.join(wt, f), "w").write(text)
                with open(outp, "a") as fh:
                    fh.write(json.dumps(rec) + "\n")
                print(json.dumps(rec)[:300], flush=True)
    finally:
        subprocess.run(["git", "-C", "/repo", "worktree", "remove", "--force", wt], capture_output=True)
        shutil.rmtree(d, ignore_errors=True)
        subprocess.run(["git", "-C", "/repo", "worktree", "prune"])


main()
