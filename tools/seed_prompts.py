"""How the sub-agents that write seeded changes are briefed: one prompt per property (its text only), a scratch worktree each.
usage: seed_prompts.py <round>  -> /tmp/seed/prompt<round>-<PID>.txt; the agents deliver /tmp/seed/out<round>-<PID>/m<i>.diff, m<i>_demo.py,
m<i>.md (confirmed and filed with `SEED_OUT=out<round> tools/intake.sh <PID> m<i> <seed-id> "<needs>"`)."""
import sys
ROUND = sys.argv[1] if len(sys.argv) > 1 else "X"
import json, os, subprocess
used = {}
for d in sorted(os.listdir('/verif/seeded')):
    if d.startswith('C') and '-' in d and os.path.isdir('/verif/seeded/'+d):
        p, m = d.split('-', 1)
        used.setdefault(p, []).append(m.replace('-', ' '))
for l in open('/verif/properties.jsonl'):
    p = json.loads(l); pid = p['id']
    wt = f'/tmp/seed/wt-{pid}'; out = f'/tmp/seed/out{ROUND}-{pid}'
    os.makedirs(out, exist_ok=True)
    if not os.path.isdir(wt):
        subprocess.check_call(['git', '-C', '/repo', 'worktree', 'add', '--detach', '-q', wt, 'HEAD'])
    anchors = p['anchors']
    mech = '\n'.join(f"  - {m['name']} ({m['where']})" for m in anchors.get('mechanism', []))
    state = '\n'.join(f"  - {m['name']}: {m['meaning']} ({m['where']})" for m in anchors.get('state', []))
    txt = f"""You are helping to test a verification effort for the open-source Python tool MonkeyType (records runtime
argument/return types via sys.setprofile, merges and rewrites them, stores them in SQLite, and emits or applies type stubs).

You have your own scratch git worktree of the repository at {wt} (detached HEAD, clean). Work ONLY there and in
{out} (your output directory). Do not read or modify /repo or /verif, and do not commit anything.
Python: /venv/bin/python (3.12). To run code against your worktree use `PYTHONPATH={wt} /venv/bin/python ...` and check
that `monkeytype.__file__` is inside {wt}. No network is available.

THE PROPERTY (a semantic guarantee users of MonkeyType rely on):

  Title: {p['title']}
  Statement: {p['statement']}
  Domain it quantifies over: {p['quantifier']['text']}
  Why the existing tests cannot settle it: {p['why_tests_cant']}
  Code it is anchored in: {', '.join(anchors['files'])}
{('  State:' + chr(10) + state + chr(10)) if state else ''}  Mechanisms:
{mech}
  (line numbers are approximate; the tree has had a few bug fixes since they were written)

YOUR TASK: write TWO independent changes to MonkeyType's source (call them m1 and m2), each of which BREAKS this property
while (a) the package still imports/compiles and (b) the repository's existing test suite gives exactly the same result as
on the clean tree. On the clean tree the suite's result is `1 failed, 378 passed, 2 skipped, 1 xpassed` - the one failure,
tests/test_config.py::TestDefaultCodeFilter::test_excludes_site_packages, is pre-existing and must stay the only one.
Run it with:   cd {wt} && PYTHONPATH={wt} /venv/bin/python -m pytest -q -p no:cacheprovider

Requirements for each change:
 * It must look like something a maintainer could plausibly commit: an optimisation, a cache, a refactor, a "simplification",
   a fix for something else, a changed default, a reordered step. A few lines up to a few dozen. No dead giveaways, no
   `if x == "magic"` special-casing of a literal input, no random behaviour, nothing dependent on wall-clock time.
 * It must need something SPECIFIC to manifest, not be exposed by ordinary use at once: a particular interleaving, a crash or
   fault at a particular point, a multi-step sequence of operations, an unusual-but-legal input shape, a particular
   configuration value, state carried over from an earlier call, or two cooperating sites that each look fine alone.
 * m1 and m2 must use different mechanisms at different code sites (preferably different functions or files).
 * Earlier rounds already used the following mechanisms for this property - do NOT reuse them or close variants; go for
   other code sites and other kinds of trigger: {'; '.join(used.get(pid, []))}.
 * The violation must be of THIS property as stated (read the statement closely: every clause of it is fair game,
   including the less obvious ones), demonstrated through MonkeyType's public behaviour.

Deliverables (for i in 1, 2), all under {out}:
 * m<i>.diff      - `git diff` of the change against the clean HEAD of the worktree (each diff stands alone, NOT cumulative:
                    run `git -C {wt} checkout -- . && git -C {wt} clean -fdq` between m1 and m2; NEVER use `git stash`, the stash is shared with other worktrees). It must apply with
                    `git apply` to a clean checkout.
 * m<i>_demo.py   - a standalone program that exits 0 (printing PASS) when the property holds and exits 1 (printing FAIL and
                    what was observed) when it is violated. It imports whichever `monkeytype` is first on PYTHONPATH, must not
                    depend on the current directory, keeps any scratch files in a tempfile directory it removes itself, and is
                    deterministic. It must exit 0 on the clean tree and exit 1 with the change applied. It should test the
                    property (an observable promise), not the presence of your edit.
 * m<i>.md        - what was changed, why it breaks the property, and exactly what is needed for it to manifest.

Before you finish, verify for each change yourself: demo exits 0 on clean tree; demo exits 1 with the change; test-suite
result line unchanged with the change. Then restore the worktree to clean (`git checkout -- .`, `git clean -fdq`).
Your final message: for each of m1/m2 one paragraph (site, mechanism, trigger) plus the verification results you observed.
"""
    open(f'/tmp/seed/prompt{ROUND}-{pid}.txt', 'w').write(txt)
print('ok')
