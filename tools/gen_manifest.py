#!/venv/bin/python
"""Regenerates MANIFEST.json from the table below (kept in one place so it stays valid)."""
import json, os, sys
HERE = os.path.dirname(os.path.dirname(os.path.abspath(__file__)))
BASE = "cd /repo && /venv/bin/python -m pytest -ra -q -p no:cacheprovider --timeout=900 --continue-on-collection-errors"

# id: (engine, level, technique, level text, level note)
CHECKS = {}
def chk(pid, engine, level, technique, text, note, design):
    CHECKS[pid] = dict(engine=engine, level=level, technique=technique, text=text, note=note, design=design)

exec(open(os.path.join(HERE, "tools", "manifest_table.py")).read())

ALL = ["C%02d" % i for i in range(1, 19)]
checks = []
for pid in ALL:
    if pid not in CHECKS: continue
    c = CHECKS[pid]
    checks.append({
        "property_id": pid,
        "quick_cmd": f"./check {pid} --tier quick",
        "thorough_cmd": f"./check {pid} --tier thorough",
        "evidence_file": f"evidence/{pid}.json",
        "replay_cmd_template": f"./check {pid} --replay {{path}}",
        "engine": c["engine"],
        "level_claimed": {"category": c["level"], "text": c["text"], "design_ref": c["design"]},
        "level_note": c["note"],
        "technique": c["technique"],
    })
na = [{"property_id": p, "reason": NOT_APPLICABLE.get(p, "check not built yet (work in progress); the design in DESIGN.md section 4 applies")} for p in ALL if p not in CHECKS]
m = {
    "version": 1,
    "setup_cmd": "./setup.sh",
    "hooks": {"guard": "MONKEYTYPE_VERIF", "enable": "no hooks are needed: every check drives public API of the working tree at /repo (imported, never copied)",
              "baseline_off_cmd": BASE, "source_commits": [], "add_only": True},
    "engines": ENGINES,
    "checks": checks,
    "not_applicable": na,
    "notes": NOTES,
}
json.dump(m, open(os.path.join(HERE, "MANIFEST.json"), "w"), indent=1)
import jsonschema
jsonschema.validate(m, json.load(open("/root/.vp/MANIFEST.schema.json")))
print("MANIFEST.json written:", len(checks), "checks,", len(na), "not applicable")
