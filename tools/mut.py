#!/venv/bin/python
"""Sensitivity experiment: apply a textual mutation to a scratch copy of /repo, run checks against it.

usage: tools/mut.py [--tests] [--seed N] FILE OLD NEW -- C04 C05 ...
   or: tools/mut.py [--tests] --patch file.diff -- C04 ...
The scratch copy lives under /tmp/mut and is removed afterwards. /repo is never touched.
"""
import os, shutil, subprocess, sys, tempfile

def main():
    a = sys.argv[1:]
    tests = False; seed = "1"; patch = None
    while a and a[0].startswith("--") and a[0] != "--":
        if a[0] == "--tests": tests = True; a = a[1:]
        elif a[0] == "--seed": seed = a[1]; a = a[2:]
        elif a[0] == "--patch": patch = os.path.abspath(a[1]); a = a[2:]
        else: break
    i = a.index("--")
    spec, checks = a[:i], a[i + 1:]
    os.makedirs("/tmp/mut", exist_ok=True)
    d = tempfile.mkdtemp(dir="/tmp/mut")
    try:
        subprocess.check_call(["git", "-C", "/repo", "worktree", "add", "--detach", "-q", d + "/r"], stdout=subprocess.DEVNULL)
        root = d + "/r"
        # carry over uncommitted state of /repo too
        diff = subprocess.run(["git", "-C", "/repo", "diff", "HEAD"], capture_output=True, text=True).stdout
        if diff.strip():
            subprocess.run(["git", "-C", root, "apply"], input=diff, text=True, check=True)
        if patch:
            subprocess.check_call(["git", "-C", root, "apply", patch])
        else:
            f, old, new = spec
            p = os.path.join(root, f)
            s = open(p).read()
            if s.count(old) != 1:
                print(f"MUT-ERROR: {s.count(old)} occurrences of OLD in {f}"); return 3
            open(p, "w").write(s.replace(old, new))
        if tests:
            r = subprocess.run(["/venv/bin/python", "-m", "pytest", "-q", "-p", "no:cacheprovider", "-x", "-q"], cwd=root,
                               env={**os.environ, "PYTHONPATH": root}, capture_output=True, text=True)
            tail = [l for l in r.stdout.splitlines() if "passed" in l or "failed" in l][-1:]
            fails = [l for l in r.stdout.splitlines() if l.startswith("FAILED")]
            print("TESTS:", tail, "failed:", len(fails), [f.split(" ")[1] for f in fails][:8])
        env = {**os.environ, "VERIF_REPO_ROOT": root, "VERIF_SEED": seed}
        for c in checks:
            tier = "quick"
            if ":" in c: c, tier = c.split(":")
            r = subprocess.run([os.path.join(os.path.dirname(os.path.dirname(os.path.abspath(__file__))), "check"), c, "--tier", tier],
                               env=env, capture_output=True, text=True)
            lines = [l for l in (r.stdout + r.stderr).splitlines() if l.startswith(("VIOLATION", "  violation", "HARNESS"))]
            if r.returncode == 2 and os.environ.get("MUT_DEBUG"): print(r.stdout[-3000:], r.stderr[-2000:])
            print(f"{c}: exit={r.returncode}", *[("\n    " + l[:300]) for l in lines[:6]])
    finally:
        subprocess.run(["git", "-C", "/repo", "worktree", "remove", "--force", d + "/r"], stdout=subprocess.DEVNULL, stderr=subprocess.DEVNULL)
        shutil.rmtree(d, ignore_errors=True)
        subprocess.run(["git", "-C", "/repo", "worktree", "prune"])

sys.exit(main())
