#!/bin/bash
# usage: tools/runall.sh [tier] [seeds...]  -- runs every check, prints one line each
cd "$(dirname "$0")/.."
tier="${1:-quick}"; shift
seeds="${@:-1}"
for s in $seeds; do
  for i in 01 02 03 04 05 06 07 08 09 10 11 12 13 14 15 16 17 18; do
    start=$(date +%s)
    out=$(VERIF_SEED=$s ./check C$i --tier $tier 2>&1); rc=$?
    echo "seed=$s C$i rc=$rc $(( $(date +%s) - start ))s $(echo "$out" | grep -E '^C[0-9]+ tier' | sed 's/.*evaluations/evaluations/')"
    [ $rc -ne 0 ] && echo "$out" | grep -E "VIOLATION|violation sig|HARNESS" | cut -c1-400
  done
done
