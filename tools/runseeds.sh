#!/bin/bash
# usage: tools/runseeds.sh <seed-id-glob> <check ids...> : run checks against each seeded patch (scratch tree)
g="$1"; shift
for d in /verif/seeded/$g; do
  [ -f "$d/patch.diff" ] || continue
  echo "=== $(basename $d)"
  /verif/tools/mut.py --patch "$d/patch.diff" -- "$@"
done
