#!/venv/bin/python
"""Re-base seeded patches that no longer apply to /repo's HEAD (after a fix: commit touched the same lines) with a 3-way
merge, re-confirm them (demo passes clean / fails patched, test suite unchanged) and update meta.json. Conflicts are reported."""
import glob, json, os, subprocess, sys
HERE = os.path.dirname(os.path.dirname(os.path.abspath(__file__)))
wt = "/tmp/mut/wt-rebase"
subprocess.run(["git", "-C", "/repo", "worktree", "remove", "--force", wt], capture_output=True)
subprocess.check_call(["git", "-C", "/repo", "worktree", "add", "--detach", "-q", wt, "HEAD"])
head = subprocess.check_output(["git", "-C", "/repo", "rev-parse", "--short", "HEAD"], text=True).strip()
def git(*a, **k): return subprocess.run(["git", "-C", wt] + list(a), capture_output=True, text=True, **k)
try:
    for d in sorted(glob.glob(os.path.join(HERE, "seeded", sys.argv[1] if len(sys.argv) > 1 else "*"))):
        p = os.path.join(d, "patch.diff")
        if not os.path.exists(p): continue
        git("reset", "--hard", "-q"); git("clean", "-fdq")
        if git("apply", "--check", p).returncode == 0:
            continue
        r = git("apply", "--3way", p)
        text = open(os.path.join(wt, "monkeytype/tracing.py")).read() + "".join(open(f).read() for f in glob.glob(wt + "/monkeytype/*.py"))
        if r.returncode != 0 or "<<<<<<<" in text:
            print("CONFLICT", os.path.basename(d)); continue
        new = git("diff", "HEAD").stdout
        env = {**os.environ, "PYTHONPATH": wt}
        r1 = subprocess.run(["/venv/bin/python", os.path.join(d, "demo.py")], env=env, capture_output=True, text=True, cwd="/tmp/mut")
        t = subprocess.run(["/venv/bin/python", "-m", "pytest", "-q", "-p", "no:cacheprovider"], env=env, cwd=wt, capture_output=True, text=True)
        fails = sorted(l.split()[1] for l in t.stdout.splitlines() if l.startswith("FAILED"))
        git("reset", "--hard", "-q")
        r0 = subprocess.run(["/venv/bin/python", os.path.join(d, "demo.py")], env=env, capture_output=True, text=True, cwd="/tmp/mut")
        ok = r0.returncode == 0 and r1.returncode == 1 and fails == ["tests/test_config.py::TestDefaultCodeFilter::test_excludes_site_packages"]
        print("REBASED" if ok else "REBASE-NOT-CONFIRMED", os.path.basename(d), r0.returncode, r1.returncode, fails[:2])
        if ok:
            open(p, "w").write(new)
            m = json.load(open(os.path.join(d, "meta.json")))
            m["base_commit"] = head
            m["note"] = (m.get("note", "") + f" patch re-based (3-way) onto {head}; demo and test suite re-confirmed").strip()
            json.dump(m, open(os.path.join(d, "meta.json"), "w"), indent=1)
finally:
    subprocess.run(["git", "-C", "/repo", "worktree", "remove", "--force", wt], capture_output=True)
    subprocess.run(["git", "-C", "/repo", "worktree", "prune"])
